"""C06 -- quantizers stay trainable: gradients are those of the straight-through surrogate."""
import itertools
import os
import sys

sys.path.insert(0, os.path.dirname(os.path.dirname(os.path.abspath(__file__))))
import vlib  # noqa: E402
from harness import env  # noqa: E402
import numpy as np  # noqa: E402
from fractions import Fraction  # noqa: E402

PROP = "C06"
tf = env.tf
HEADER = ("From Coq Require Import ZArith List Bool.\n"
          "From QV Require Import Base.ZQ Base.FL Base.Texp Quant.Grad.\n"
          "Open Scope Z_scope. Import ListNotations.\n")
R = vlib.ratlit


def F(v):
  return Fraction(float(np.float32(v)))


def configs(tier, rng):
  allc = []
  fs = [1.0, 0.5, 0.25, 0.0]
  for bits, integer, kn, ste, f, alpha in itertools.product([2, 4, 8], [0, 1, 2], [1, 0], [True, False], fs, [None, 2.0, "auto", "auto_po2"]):
    if isinstance(alpha, str) and (not kn):
      continue
    allc.append(dict(fam="qbits", bits=bits, integer=integer, kn=kn, ste=ste, f=f, alpha=alpha))
  # slope 2^-s; s = -1 is a slope of 2.0: the constructor accepts any non-negative power of two, and max(slope*x, x) is NOT the leaky ReLU there
  for bits, integer, s, iqc, rub, ste, f in itertools.product([2, 4, 6], [0, 1, 2], [None, 1, 2, -1], [True, False], [None, 1.5], [True, False], fs):
    if s is not None and s > bits - 1:
      continue
    allc.append(dict(fam="qrelu", bits=bits, integer=integer, slope=s, iqc=iqc, rub=rub, ste=ste, f=f))
  for bits, integer, kn, sym, f, alpha in itertools.product([1, 2, 4, 8], [0, 1, 2], [1, 0], [0, 1], fs, [None, 0.5]):
    allc.append(dict(fam="qlin", bits=bits, integer=integer, kn=kn, sym=sym, f=f, alpha=alpha))
  for bits, integer, sym, f, alpha in itertools.product([2, 4, 8], [0, 1], [0, 1], fs, ["auto", "auto_po2"]):
    allc.append(dict(fam="qlin", bits=bits, integer=integer, kn=1, sym=sym, f=f, alpha=alpha))
  for bits, ste, f, mv in itertools.product([3, 4, 6], [True, False], fs, [None, 2.0]):
    allc.append(dict(fam="po2", bits=bits, ste=ste, f=f, mv=mv))
    for s in (None, 2):
      allc.append(dict(fam="rpo2", bits=bits, ste=ste, f=f, mv=mv, slope=s))
  for bits, sym in itertools.product([2, 3, 4, 6], [0, 1]):
    allc.append(dict(fam="qtanh", bits=bits, sym=sym))
    allc.append(dict(fam="qsigmoid", bits=bits, sym=sym))
  for alpha, use01 in itertools.product([None, 1.0, 2.0, "auto", "auto_po2"], [False, True]):
    allc.append(dict(fam="binary", alpha=alpha, use01=use01))
  for alpha, thr in itertools.product([None, 1.0, 2.0, "auto", "auto_po2"], [None, 0.4]):
    if isinstance(alpha, str) and thr is not None:
      continue
    allc.append(dict(fam="ternary", alpha=alpha, thr=thr))
  if tier == "thorough":
    return allc
  def key(c):
    return (c["fam"], c.get("ste"), None if c.get("slope") is None else (c["slope"] < 0), c.get("mv") is None, c.get("rub") is None, c.get("iqc"), str(c.get("alpha")), c.get("use01"), c.get("thr"),
            c["f"] if (c["fam"] == "qlin" and isinstance(c.get("alpha"), str)) else None)    # every noise factor with a data-dependent linear scale
  return vlib.stratified(allc, key, 90, rng, per=1)


def desc(c):
  return ", ".join(f"{k}={v}" for k, v in c.items())


def build(c):
  import qkeras.quantizers as Q
  f = c["fam"]
  if f == "qbits":
    return Q.quantized_bits(c["bits"], c["integer"], 1 if isinstance(c["alpha"], str) else 0, keep_negative=bool(c["kn"]), alpha=c["alpha"],
                            use_ste=c["ste"], qnoise_factor=c["f"])
  if f == "qrelu":
    return Q.quantized_relu(c["bits"], c["integer"], 0, 0.0 if c["slope"] is None else 2.0 ** -c["slope"],
                            relu_upper_bound=c["rub"], is_quantized_clip=c["iqc"], use_ste=c["ste"], qnoise_factor=c["f"])
  if f == "qlin":
    a = None if c["alpha"] is None else (c["alpha"] if isinstance(c["alpha"], str) else np.float32(c["alpha"]))
    return Q.quantized_linear(c["bits"], c["integer"], c["sym"], keep_negative=bool(c["kn"]), alpha=a, qnoise_factor=c["f"])
  if f == "po2":
    return Q.quantized_po2(c["bits"], max_value=c["mv"], use_ste=c["ste"], qnoise_factor=c["f"])
  if f == "rpo2":
    return Q.quantized_relu_po2(c["bits"], max_value=c["mv"], negative_slope=(0 if c["slope"] is None else 2.0 ** -c["slope"]),
                                use_ste=c["ste"], qnoise_factor=c["f"])
  if f == "qtanh":
    Q.set_internal_sigmoid("hard")
    return Q.quantized_tanh(c["bits"], symmetric=bool(c["sym"]))
  if f == "qsigmoid":
    Q.set_internal_sigmoid("hard")
    return Q.quantized_sigmoid(c["bits"], symmetric=bool(c["sym"]))
  if f == "binary":
    return Q.binary(alpha=c["alpha"], use_01=c["use01"])
  return Q.ternary(alpha=c["alpha"], threshold=c["thr"])


def expr_and_kinks(c):
  """Coq texp of the return expression (None = oracle judged in python) and kink points"""
  f = c["fam"]
  zero = "(Const (0, 1))"
  if f == "qbits":
    e = f"(ste Var {R(F(c['f']))} {zero})" if c["ste"] else f"(non_ste Var {R(F(c['f']))} {zero})"
    ub = c["bits"] - c["kn"]
    st = 2.0 ** (c["integer"] - ub)
    return e, [0.0, -(2.0 ** ub) * st, (2.0 ** ub - 1) * st, 0.5 * st, 1.5 * st]
  if f in ("qrelu", "rpo2"):
    slope = Fraction(0) if c["slope"] is None else Fraction(2) ** (-c["slope"])
    if f == "qrelu":
      nsb = c["bits"] - (0 if c["slope"] is None else 1)
      if c["iqc"]:
        top = Fraction(2) ** c["integer"] - Fraction(2) ** (c["integer"] - nsb)
      elif c["rub"] is not None:
        top = Fraction(c["rub"])
      else:
        top = None
    else:
      top = None if c["mv"] is None else Fraction(c["mv"])
    s = f"(sur_relu {R(slope)} {'None' if top is None else '(Some ' + R(top) + ')'})"
    e = f"(ste {s} {R(F(c['f']))} {zero})" if c["ste"] else f"(non_ste {s} {R(F(c['f']))} {zero})"
    return e, [0.0] + ([float(top)] if top is not None else [])
  if f == "po2":
    e = f"(ste Var {R(F(c['f']))} {zero})" if c["ste"] else f"(non_ste Var {R(F(c['f']))} {zero})"
    return e, [0.0, 1.0, 2.0]
  if f == "qlin" and isinstance(c["alpha"], str):
    return "AUTO-LINEAR", [0.0]
  if f == "qlin":
    alpha = Fraction(1) if c["alpha"] is None else F(c["alpha"])
    qs = alpha * Fraction(2) ** (c["integer"] - c["bits"] + c["kn"])
    if c["bits"] == 1 and c["kn"]:
      lo, hi, shift = Fraction(-1, 2), Fraction(1, 2), Fraction(1, 2)
    else:
      ub = c["bits"] - c["kn"]
      lo, hi, shift = Fraction(c["kn"] * (-(2 ** ub) + c["sym"])), Fraction(2 ** ub - 1), Fraction(0)
    e = f"(lin_expr {R(qs)} {R(lo)} {R(hi)} {R(shift)} {R(F(c['f']))})"
    return e, [0.0, float(lo * qs), float(hi * qs), float(qs) * 0.5]
  if f in ("qtanh", "qsigmoid"):
    if f == "qtanh":
      m = Fraction(2) ** (c["bits"] - 1)
      lo, hi = Fraction(-1) + Fraction(c["sym"]) / m, 1 - 1 / m
      e = f"(qtanh_expr {R(m)} {R(lo)} {R(hi)})"
    else:
      m = Fraction(2) ** c["bits"]
      lo, hi = Fraction(c["sym"]) / m, 1 - 1 / m
      e = f"(qsig_expr {R(m)} {R(lo)} {R(hi)})"
    ks = [0.0, 1.0, -1.0, float(hi), float(lo), 1.0 - 0.5 / float(m), 1.0 - 1.5 / float(m)]
    return e, ks
  # binary / ternary
  if c["alpha"] is None:
    return None, [0.0, 0.4, -0.4]
  return "Var", [0.0, 0.4, -0.4]


def main():
  rep = vlib.Report(PROP, "proof")
  from translate import retgen
  rgen, _names = retgen.emit(vlib.GEN)
  from translate import qbitsgen, relucallgen
  qgen = qbitsgen.emit(vlib.GEN)
  cgen = relucallgen.emit(vlib.GEN)
  LK = os.path.join(vlib.COQ, "theories", "Link")
  info = vlib.build_obligations(PROP, gen_files=[rgen, qgen, cgen], extra_files=[os.path.join(LK, "RetLink.v"), os.path.join(LK, "QBitsLink.v"), os.path.join(LK, "ReluCallLink.v")])
  errs = rep.obligations(info, "python3 tools/translate/retgen.py coq/gen && coqc coq/gen/RetGen.v && coqc coq/theories/Link/RetLink.v && coqc coq/theories/Properties/C06.v")
  for e in errs:
    rep.violation("obligation-" + os.path.basename(e["file"]), "proof obligation no longer checks: " + e["error"][-400:],
                  {"file": e["file"]}, no_input=True)
  rng = np.random.default_rng(vlib.SEED)
  cfgs = configs(rep.tier, rng)
  rep.cov["rule"] = ("quantizer classes x options (use_ste on/off, qnoise_factor, leaky slopes, upper bounds, constant / auto scales, "
                     "hard tanh/sigmoid, binary/ternary) x points: random normal at the format's scale, 0, +-tiny, every clip edge and kink "
                     "+-1ulp; tf.GradientTape gradient of quantizer(x) vs the dual-number evaluation of the return expression in Coq. "
                     "distinct = distinct (config, input bits)")
  texts, items = [], []
  n_or = 0
  for c in cfgs:
    q = build(c)
    e, kinks = expr_and_kinks(c)
    xs = []
    for k in kinks:
      kk = np.float32(k)
      xs += [np.nextafter(kk, np.float32(-np.inf)), kk, np.nextafter(kk, np.float32(np.inf))]
    scale = max([abs(k) for k in kinks] + [1.0])
    xs += list(rng.normal(0, scale, size=24)) + [1e-6, -1e-6, 3 * scale, -3 * scale]
    x = np.asarray(xs, dtype=np.float32)
    if c["fam"] in ("binary", "ternary") or (c["fam"] in ("qbits", "qlin") and isinstance(c["alpha"], str)):
      x = x[: (x.size // 2) * 2].reshape(-1, 2)
    xt = tf.constant(x)
    with tf.GradientTape() as tape:
      tape.watch(xt)
      y = q(xt)
    g = tape.gradient(y, xt)
    if g is None:
      rep.violation(f"no-gradient-{desc(c)}", f"{desc(c)}: GradientTape returned no gradient", {"config": c})
      continue
    g = g.numpy().reshape(-1)
    xf = x.reshape(-1)
    for xb in env.f2b(xf):
      rep.count((desc(c), xb))
    if not np.all(np.isfinite(g)):
      i = int(np.where(~np.isfinite(g))[0][0])
      rep.violation(f"non-finite-gradient-{desc(c)}", f"{desc(c)}: gradient {g[i]} at x={xf[i]}", {"config": c, "x_bits": env.f2b([xf[i]])[0]})
      continue
    if e == "AUTO-LINEAR":
      # data-dependent scale: the scale is a detached statistic of the tensor, so the surrogate is x + f * (clip(x) - x) with the clip
      # range [lo, hi] * scale of THIS call: gradient (1 - f) + f inside, (1 - f) outside, either on an edge; every entry, also the one
      # that holds its channel's maximum
      ub = c["bits"] - 1
      lo_c, hi_c = -(2 ** ub) + c["sym"], 2 ** ub - 1
      qs = np.broadcast_to(np.asarray(q.quantization_scale, dtype=np.float64), x.shape).reshape(-1)
      xv = xf.astype(np.float64) / qs
      m_lo, m_hi = 2e-6 * abs(lo_c) + 1e-7, 2e-6 * abs(hi_c) + 1e-7
      inside = (xv > lo_c + m_lo) & (xv < hi_c - m_hi)
      edge = ~inside & (xv >= lo_c - m_lo) & (xv <= hi_c + m_hi)
      fq = float(c["f"])
      n_or += xf.size
      for i in range(xf.size):
        ok = abs(g[i] - 1.0) < 1e-5 if inside[i] else ((abs(g[i] - 1.0) < 1e-5 or abs(g[i] - (1.0 - fq)) < 1e-5) if edge[i] else abs(g[i] - (1.0 - fq)) < 1e-5)
        if not ok:
          rep.violation(f"gradient-{desc(c)}", f"{desc(c)}: tf gradient {float(g[i])} at x={xf[i]} (x / scale = {xv[i]:.6f}, code range [{lo_c}, {hi_c}]) but the straight-through "
                        f"surrogate's gradient is {1.0 if inside[i] else 1.0 - fq}", {"config": c, "x_bits": env.f2b([xf[i]])[0], "tf_gradient": float(g[i])})
          break
      continue
    if e is None:
      # unscaled binary/ternary: tanh' (float32 oracle), judged against float64 with 2^-20 slack
      want = 1.0 - np.tanh(xf.astype(np.float64)) ** 2
      n_or += xf.size
      bad = np.abs(g - want) > 2.0 ** -20
      if bad.any():
        i = int(np.where(bad)[0][0])
        rep.violation(f"gradient-{desc(c)}", f"{desc(c)}: gradient {g[i]} at x={xf[i]}, surrogate tanh' = {want[i]}",
                      {"config": c, "x_bits": env.f2b([xf[i]])[0]})
      continue
    # at a kink the float32 computation of the surrogate can fall on the other side of a rounding /
    # clipping boundary than the exact model: the model is evaluated at x and at its two float32
    # neighbours, and the TensorFlow gradient must agree with one of them
    xn = np.concatenate([xf, np.nextafter(xf, np.float32(-np.inf)), np.nextafter(xf, np.float32(np.inf))])
    lst = vlib.zlist(env.f2b(xn))
    texts.append(f"Eval vm_compute in flat_map (fun xb => match f32_dec xb with Some x => let g := rnorm (grad x {e}) in "
                 f"[rnum g; rden g] | None => [0; 0] end) {lst}.\n")
    items.append((c, xf, g, y.numpy().reshape(-1)))
  SH = 40
  shards = [(f"{PROP}_k_{s // SH:03d}", HEADER + "".join(texts[s:s + SH])) for s in range(0, len(texts), SH)]
  outs = vlib.coq_eval_many(shards)
  n_cmp = 0
  some_nonzero = {}
  for s in range(0, len(texts), SH):
    for (c, xf, g, y), flat in zip(items[s:s + SH], outs[f"{PROP}_k_{s // SH:03d}"]):
      n0 = len(xf)
      allw = [Fraction(flat[2 * i], flat[2 * i + 1]) if flat[2 * i + 1] else None for i in range(3 * n0)]
      want = allw[:n0]
      for i, (w, gi) in enumerate(zip(want, g)):
        if w is None:
          continue
        alts = [a for a in (allw[n0 + i], allw[2 * n0 + i]) if a is not None]
        if abs(xf[i]) < 2.0 ** -126 and xf[i] != 0:
          continue  # denormals are zeros to TF
        n_cmp += 1
        got = Fraction(float(gi))
        if all(abs(got - a) > Fraction(1, 2 ** 22) * max(1, abs(a)) for a in [w] + alts):
          rep.violation(f"gradient-{desc(c)}", f"{desc(c)}: tf gradient {float(gi)} at x={xf[i]} but the surrogate's gradient is {float(w)}",
                        {"config": c, "x_bits": env.f2b([xf[i]])[0], "tf_gradient": float(gi), "model_gradient": [w.numerator, w.denominator]})
          break
      # use_ste=False with qnoise_factor=1 is (1-f)*x + stop_gradient(xq): gradient (1-f) = 0 by construction
      some_nonzero[desc(c)] = bool(np.any(g != 0)) or (c.get("f") == 1.0 and not c.get("ste", True))
  for d, ok in some_nonzero.items():
    if not ok:
      rep.violation(f"gradient-identically-zero-{d}", f"{d}: gradient is zero at every sampled point", {"config": d})
  rep.note(gradients_compared_with_model=n_cmp, oracle_tanh_points=n_or, configs=len(cfgs))
  rep.sample({"config": desc(items[0][0]), "x": [float(v) for v in items[0][1][:4]], "tf_gradient": [float(v) for v in items[0][2][:4]]})
  rep.assumptions += ["TensorFlow's gradient conventions (clip closed interval, relu'(0)=alpha, stop_gradient, where by forward value) are part "
                      "of the model Base/Texp.v and are re-validated at every kink on every run",
                      "tanh' of unscaled binary/ternary is a float32 oracle, compared with float64 to 2^-20",
                      "bernoulli / stochastic_* / quantized_ulaw / quantized_hswish are not covered (random or log surrogates)"]
  return rep.finish(vlib.TRUSTED_COMMON + ["translators tools/translate/{retgen,qbitsgen,relucallgen}.py regenerate coq/gen/{RetGen,QBitsGen,ReluCallGen}.v (straight-through return shapes; the unquantized surrogate of quantized_relu)",
                                          "the texp of each return expression is written by hand from the source lines named in Quant/Grad.v; "
                                           "tie = tf.GradientTape vs dual-number evaluation on every generated point"])


if __name__ == "__main__":
  sys.exit(main())

"""C07 -- qnoise_factor interpolates exactly between unquantized and quantized outputs; scheduler."""
import itertools
import os
import sys

sys.path.insert(0, os.path.dirname(os.path.dirname(os.path.abspath(__file__))))
import vlib  # noqa: E402
from harness import env  # noqa: E402
import numpy as np  # noqa: E402
from fractions import Fraction  # noqa: E402
from checks import fixed_k  # noqa: E402

PROP = "C07"
tf = env.tf
HEADER = ("From Coq Require Import ZArith List Bool.\n"
          "From QV Require Import Base.ZQ Base.FL Quant.Fixed Quant.Noise Quant.NoiseChk.\n"
          "Open Scope Z_scope. Import ListNotations.\n")


def mk(c, **kw):
  import qkeras.quantizers as Q
  f = c["fam"]
  if f == "qbits":
    return Q.quantized_bits(c["bits"], c["integer"], c["sym"], keep_negative=bool(c["kn"]), use_ste=c["ste"], **kw)
  if f == "qbits_auto":
    return Q.quantized_bits(c["bits"], c["integer"], 1, alpha=c["alpha"], use_ste=c["ste"], **kw)
  if f == "qrelu":
    return Q.quantized_relu(c["bits"], c["integer"], 0, 0.0 if c["slope"] is None else 2.0 ** -c["slope"],
                            use_ste=c["ste"], **kw)
  if f == "qlin":
    return Q.quantized_linear(c["bits"], c["integer"], c["sym"], keep_negative=bool(c["kn"]), **kw)
  if f == "po2":
    return Q.quantized_po2(c["bits"], use_ste=c["ste"], **kw)
  return Q.quantized_relu_po2(c["bits"], max_value=c.get("mv"), negative_slope=(0 if c["slope"] is None else 2.0 ** -c["slope"]), use_ste=c["ste"], **kw)


def desc(c):
  return ", ".join(f"{k}={v}" for k, v in c.items())


def configs(tier, rng):
  allc = []
  for bits, integer, kn, sym, ste in itertools.product([2, 3, 4, 6, 8], [0, 1, 2], [1, 0], [0, 1], [True, False]):
    allc.append(dict(fam="qbits", bits=bits, integer=integer, kn=kn, sym=sym, ste=ste))
  for bits, integer, s, ste in itertools.product([2, 3, 4, 6, 8], [0, 1, 2], [None, 1, 2], [True, False]):
    if s is not None and s > bits - 1:
      continue
    allc.append(dict(fam="qrelu", bits=bits, integer=integer, slope=s, iqc=True, rub=None, ste=ste))
  for bits, integer, kn, sym in itertools.product([2, 3, 4, 8], [0, 1, 2], [1, 0], [0, 1]):
    allc.append(dict(fam="qlin", bits=bits, integer=integer, kn=kn, sym=sym, alpha=None))
  n_fixed = len(allc)
  # data-dependent scales: the mixing must still be between the INPUT and the quantized value (relational check)
  for bits, integer, alpha, ste in itertools.product([4, 6], [0, 1, 2], ["auto", "auto_po2"], [True, False]):
    allc.append(dict(fam="qbits_auto", bits=bits, integer=integer, alpha=alpha, ste=ste))
  for bits, ste in itertools.product([3, 4, 6], [True, False]):
    allc.append(dict(fam="po2", bits=bits, ste=ste, mv=None))
    for s, mv in ((None, None), (2, None), (None, 2.0), (2, 2.0)):
      allc.append(dict(fam="rpo2", bits=bits, ste=ste, slope=s, mv=mv))
  if tier == "thorough":
    return allc
  # stratified: every power-of-two configuration (30) plus 30 of the fixed-point ones
  idx = list(rng.choice(n_fixed, size=30, replace=False)) + list(range(n_fixed, len(allc)))
  return [allc[i] for i in sorted(idx)]


def inputs(c, rng):
  if c["fam"] == "qbits_auto":
    return np.asarray(list(rng.normal(0, 1.5, size=40)) + [0.0, 1.0, -1.0, 0.75, 3.0], dtype=np.float32)
  if c["fam"] in ("po2", "rpo2"):
    xs = list(np.exp(rng.uniform(-6, 4, size=40)) * rng.choice([-1, 1], size=40)) + [0.0, 1.0, -1.0, 0.75, 3.0]
    return np.asarray(xs, dtype=np.float32)
  se, lo, hi = fixed_k.fmt_of(c)
  step = 2.0 ** se
  xs = []
  for k in sorted(set(rng.integers(lo - 2, hi + 3, size=8).tolist() + [lo - 1, lo, -1, 0, hi, hi + 1])):
    xs += fixed_k.nbrs((k + 0.5) * step) + [np.float32(k * step)]
  xs += list(rng.normal(0, max(abs(lo), hi, 1) * step, size=24))
  return np.asarray(xs, dtype=np.float32)


def f32bits(v):
  return int(np.asarray([v], dtype=np.float32).view(np.uint32)[0])


def main():
  rep = vlib.Report(PROP, "proof")
  from translate import schedgen
  gen = schedgen.emit(vlib.GEN)
  from translate import lingen
  lgen = lingen.emit(vlib.GEN)
  info = vlib.build_obligations(PROP, gen_files=[gen, lgen], extra_files=[os.path.join(vlib.COQ, "theories", "Link", "SchedLink.v"), os.path.join(vlib.COQ, "theories", "Link", "LinLink.v")])
  errs = rep.obligations(info, "python3 tools/translate/schedgen.py coq/gen && coqc coq/gen/SchedGen.v && coqc coq/theories/Link/SchedLink.v && coqc coq/theories/Properties/C07.v")
  for e in errs:
    rep.violation("obligation-" + os.path.basename(e["file"]), "proof obligation no longer checks: " + e["error"][-400:],
                  {"file": e["file"]}, no_input=True)
  rng = np.random.default_rng(vlib.SEED)
  rep.cov["rule"] = ("mixing: quantizers exposing qnoise_factor (quantized_bits/relu/linear/po2/relu_po2, use_ste on/off) x factors "
                     "{0,.25,.5,.75,1,.3,.9,random} x four storage routes (constructor, update before build, update after build, "
                     "tf.Variable-backed) x breakpoint+-ulp and random inputs; scheduler: real QNoiseScheduler driven through its hooks on "
                     "stand-in model/layers holding real quantizers over (start, finish, exponent, update_freq, freq_type, initial step) "
                     "and random hook sequences. distinct = distinct (config, factor, input) resp. (schedule, hook history)")
  cfgs = configs(rep.tier, rng)
  texts, items = [], []
  n_routes = n_rel = 0
  for c in cfgs:
    x = inputs(c, rng)
    xt = tf.constant(x)
    fs = [0.0, 0.25, 0.5, 0.75, 1.0, 0.3, 0.9, float(rng.uniform(0, 1))]
    y_def = mk(c)(xt).numpy()
    y0 = None
    for f in fs:
      outs = {}
      q1 = mk(c, qnoise_factor=f)
      outs["constructor"] = q1(xt).numpy()
      q2 = mk(c)
      q2.update_qnoise_factor(f)
      outs["update_before_build"] = q2(xt).numpy()
      q3 = mk(c)
      q3(xt)
      q3.update_qnoise_factor(f)
      outs["update_after_build"] = q3(xt).numpy()
      q4 = mk(c, use_variables=True)
      q4(xt)
      q4.update_qnoise_factor(f)
      outs["tf_variable"] = q4(xt).numpy()
      base = env.f2b(outs["constructor"])
      for k, v in outs.items():
        n_routes += 1
        vb = env.f2b(v)
        if vb != base:
          i = int(np.where(np.asarray(vb) != np.asarray(base))[0][0])
          # python-float vs float32-variable evaluation of (1 - f) may differ in the last bit for non-STE
          # |(1-f) as float64->float32  -  (1 - float32(f))| <= 2^-24, so the outputs differ by at most ~2^-23*|x|
          ulp_only = bool(np.all(np.abs(v.astype(np.float64) - outs["constructor"].astype(np.float64))
                                 <= 2.0 ** -22 * np.maximum(np.abs(x), np.abs(v)).astype(np.float64)))
          fid = "C07-nonste-variable-vs-float-one-minus-f-rounding" if (ulp_only and not c.get("ste", True) and k == "tf_variable") else f"route-differs-{desc(c)}-{k}"
          rep.finding(fid, f"{desc(c)} f={f}: route {k} gives {v[i]} but the constructor route gives {outs['constructor'][i]} at x={x[i]}",
                      {"config": c, "f": f, "route": k, "x_bits": env.f2b([x[i]])[0]})
      y = outs["constructor"]
      for xb in env.f2b(x):
        rep.count((desc(c), f, xb))
      if f == 0.0:
        y0 = y
      if f == 1.0 and env.f2b(y) != env.f2b(y_def):
        rep.violation(f"f1-not-quantized-{desc(c)}", f"{desc(c)}: qnoise_factor=1 differs from the default quantizer", {"config": c})
      # model comparison (fixed-point families)
      fb = f32bits(f)
      ob = f32bits(np.float32(1.0 - f))
      if c["fam"] in ("qbits", "qrelu", "qlin"):
        pairs = "; ".join(f"({a},{b})" for a, b in zip(env.f2b(x), env.f2b(y)))
        if c["fam"] == "qbits":
          fn = f"chk_noise_qbits {fixed_k.coq_cfg(c)} {vlib.blit(c['ste'])} {fb} {ob}"
        elif c["fam"] == "qrelu":
          fn = f"chk_noise_qrelu {fixed_k.coq_cfg(c)} {vlib.blit(c['ste'])} {fb} {ob}"
        else:
          fn = f"chk_noise_qlin {fixed_k.coq_cfg(c)} {fb}"
        texts.append(f"Eval vm_compute in summarize (map (fun p => {fn} (fst p) (snd p)) [{pairs}]).\n")
        items.append((c, f, x, y))
      else:
        # relational check in float32 (numpy): y_f = s + f*(-s + xq), s = y_0, xq = y_1 where exact
        if y0 is not None and f not in (0.0,):
          s = y0.astype(np.float32)
          xq = y_def.astype(np.float32)
          ok = np.abs(x) < 2.0 ** 18 * np.abs(xq)
          f32 = np.float32(f)
          if c["ste"]:
            exp = s + f32 * (-s + xq)
          else:
            exp = np.float32(1.0 - f) * s + f32 * xq
          n_rel += int(ok.sum())
          bad = ok & (env.b2f(env.f2b(exp)) != y) & ~((exp == 0) & (y == 0))
          if bad.any():
            i = int(np.where(bad)[0][0])
            rep.violation(f"interp-{desc(c)}-{f}", f"{desc(c)} f={f}: output {y[i]} != s + f*(q - s) = {exp[i]} at x={x[i]}",
                          {"config": c, "f": f, "x_bits": env.f2b([x[i]])[0]})
    # f = 0 returns the surrogate
    if y0 is not None:
      if c["fam"] in ("qbits", "qlin", "po2", "qbits_auto"):
        sur = x
      elif c["fam"] == "qrelu":
        sl = 0.0 if c["slope"] is None else 2.0 ** -c["slope"]
        top = np.float32(2.0 ** c["integer"] - 2.0 ** (c["integer"] - (c["bits"] - (0 if c["slope"] is None else 1))))
        sur = np.where(x <= top, np.where(x < 0, np.float32(sl) * x, x), top).astype(np.float32)
      else:
        sl = 0.0 if c["slope"] is None else 2.0 ** -c["slope"]
        sur = np.where(x < 0, np.float32(sl) * x, x).astype(np.float32)
        if c.get("mv") is not None:
          sur = np.where(x <= np.float32(c["mv"]), sur, np.float32(c["mv"])).astype(np.float32)
      neq = (y0 != sur) & ~((y0 == 0) & (sur == 0)) & (np.abs(x) >= 2.0 ** -126)
      if neq.any():
        i = int(np.where(neq)[0][0])
        rep.violation(f"f0-not-surrogate-{desc(c)}", f"{desc(c)}: qnoise_factor=0 gives {y0[i]} for x={x[i]}, surrogate is {sur[i]}",
                      {"config": c, "x_bits": env.f2b([x[i]])[0]})
  SH = 60
  shards = [(f"{PROP}_k_{s // SH:03d}", HEADER + "".join(texts[s:s + SH])) for s in range(0, len(texts), SH)]
  outs = vlib.coq_eval_many(shards)
  n_ok = 0
  for s in range(0, len(texts), SH):
    for (c, f, x, y), l in zip(items[s:s + SH], outs[f"{PROP}_k_{s // SH:03d}"]):
      n_ok += l[0]
      for bi in l[3:][:1]:
        rep.violation(f"mix-mismatch-{desc(c)}-{f}", f"{desc(c)} f={f}: output differs from surrogate + f*(quantized - surrogate) in float32",
                      {"config": c, "f": f, "x_bits": env.f2b([x[bi]])[0], "y_bits": env.f2b([y[bi]])[0]})
  rep.note(mixing=dict(configs=len(cfgs), storage_route_runs=n_routes, model_agree=n_ok, relational_float32_checked=n_rel))
  rep.sample({"config": desc(cfgs[0]), "factors": [0.0, 0.25, 0.5, 0.75, 1.0, 0.3, 0.9, "random"]})

  # ---------------- scheduler ----------------
  from qkeras.callbacks import QNoiseScheduler
  import qkeras.quantizers as Q

  class Lyr:
    pass

  class Mdl:
    pass
  nsch = 120 if rep.tier == "quick" else 1500
  texts, items = [], []
  n_traced = 0
  for si in range(nsch):
    start = int(rng.integers(0, 10))
    finish = start + int(rng.integers(0, 12))
    expo = int(rng.integers(1, 4))
    uf = int(rng.integers(1, 5))
    by_epoch = bool(rng.integers(0, 2))
    init = int(rng.integers(0, 4))
    # the factor a quantizer holds when training begins is arbitrary (0 after a "pretrain unquantized" phase or an earlier schedule)
    f0 = [float(rng.choice([0.0, 0.0, 0.5, 1.0])) for _ in range(4)]
    qs = [Q.quantized_bits(4, 0, 1, qnoise_factor=f0[0]), Q.quantized_relu(4, 1, qnoise_factor=f0[1]), Q.quantized_po2(4, qnoise_factor=f0[2]),
          Q.quantized_bits(8, 2, 1, use_variables=True, qnoise_factor=f0[3])]
    if si % 3 == 0:
      qs[3].build(use_variables=True)   # already variable-backed when training begins
    if si % 3 == 1:
      qs[0](tf.constant([0.25, -0.5]))  # used before training: built with a python-float factor, the scheduler has to rebuild it
      qs[2](tf.constant([0.25, -0.5]))
    noknob = Q.quantized_tanh(4)
    l1, l2, l3 = Lyr(), Lyr(), Lyr()
    l1.quantizers = [qs[0], None, qs[1]] if False else [qs[0], qs[1], noknob]
    l2.quantizer = qs[2]
    l3.quantizers = [qs[3]]
    m = Mdl()
    m.layers = [l1, Lyr(), l2, l3]
    cb = QNoiseScheduler(start, finish, freq_type="epoch" if by_epoch else "step", update_freq=uf,
                         initial_step_or_epoch=init, exponent=float(expo))
    cb._model = m  # Keras 3: Callback.model is a read-only property over _model
    cb.on_train_begin()
    got = cb.quantizers
    if [id(q) for q in got] != [id(q) for q in qs]:
      rep.violation(f"get-quantizers-{si}", "get_quantizers did not return exactly the quantizers exposing the knob, in layer order",
                    {"returned": [str(q) for q in got]})
    hooks = rng.integers(0, 3, size=int(rng.integers(5, 41))).tolist()
    hist = []
    ni = 0
    # the compiled training step: a traced function reads whatever object held the factor when it was traced.  Traced right after
    # on_train_begin (as Keras does), it must see every later update -- for quantizers that were used before training as well
    traced = None
    if si % 6 in (1, 4):
      xprobe = tf.constant([0.3, -0.7, 0.05, 1.4, -2.2], dtype=tf.float32)
      traced = [(k_, tf.function(lambda x, q_=qs[k_]: q_(x))) for k_ in (0, 2, 3)]
      for _k, fn_ in traced:
        fn_(xprobe)
    for h in hooks:
      before = int(cb.num_iters)
      if h == 0:
        cb.on_epoch_begin(0)
      elif h == 1:
        cb.on_train_batch_begin(0)
      else:
        cb.on_epoch_end(0)
      if int(cb.num_iters) != before:
        freq = init + before
        vals = []
        for q in qs:      # every quantizer with the knob, whether or not the scheduler registered it
          v = q.qnoise_factor
          vals.append(float(v.numpy()) if hasattr(v, "numpy") else float(v))
        hist.append((freq, vals, float(cb.qnoise_factor) if cb.qnoise_factor is not None else None))
        if traced is not None:
          n_traced += 1
          for k_, fn_ in traced:
            yt, ye = fn_(xprobe).numpy(), qs[k_](xprobe).numpy()
            if not np.allclose(yt, ye, rtol=0, atol=1e-6):
              rep.violation(f"sched-traced-function-{si}-{k_}", f"after the update at step {freq} the quantizer {qs[k_]} evaluated inside a traced tf.function gives {yt.tolist()} "
                            f"but eagerly (factor {vals[k_]}) {ye.tolist()}: the compiled step does not see the scheduler's factor",
                            {"schedule": [start, finish, expo, uf, by_epoch, init], "hooks": hooks, "used_before_training": si % 3 == 1})
              traced = None
              break
    rep.count(("sched", start, finish, expo, uf, by_epoch, init, tuple(hooks)))
    # judge the history: per update step, all quantizers equal calc(last applied freq)
    last = None
    prev = -1.0
    for freq, vals, cbv in hist:
      if freq % uf == 0:
        last = freq
      if last is None:
        want = 0.0
        for v in vals:
          if v != 0.0:
            rep.violation(f"sched-initial-{si}", "quantizers are not reset to factor 0 before the first update", {"schedule": [start, finish, expo, uf, by_epoch, init]})
        continue
      # python-float quantizers hold the float64 value, the variable-backed one its float32 rounding
      # a quantizer that is variable-backed (built before training, or rebuilt by the scheduler) holds the float32 rounding of the value
      v64 = cbv if cbv is not None else vals[0]
      if not all(v in (v64, float(np.float32(v64))) for v in vals):
        rep.violation(f"sched-not-all-{si}", f"not every quantizer received the same factor at step {freq}: {vals}",
                      {"schedule": [start, finish, expo, uf, by_epoch, init], "hooks": hooks})
      if v64 < prev:
        rep.violation(f"sched-decreases-{si}", f"factor decreased from {prev} to {v64} at step {freq}",
                      {"schedule": [start, finish, expo, uf, by_epoch, init], "hooks": hooks})
      prev = v64
      if freq == last:
        texts.append(f"chk_calc {start} {finish} {expo}%nat {last} {env.d2b([v64])[0]}")
        items.append((si, start, finish, expo, uf, by_epoch, init, last, v64))
  if texts:
    body = HEADER + "Eval vm_compute in [" + ";\n ".join(texts) + "].\n"
    out = vlib.coq_eval(PROP + "_sched", body)[0]
    for it, v in zip(items, out):
      if v != 0:
        rep.violation(f"sched-value-{it[0]}", f"scheduler factor at step {it[7]} is {it[8]}, model calc differs "
                      f"(start={it[1]}, finish={it[2]}, exponent={it[3]})", {"schedule": it[1:7], "freq": it[7], "value": it[8]})
  rep.note(scheduler=dict(schedules=nsch, update_values_compared_with_model=len(texts), updates_seen_through_traced_functions=n_traced))
  rep.sample({"schedule": dict(start=start, finish=finish, exponent=expo, update_freq=uf, by_epoch=by_epoch, initial=init),
              "hooks(0=epoch_begin,1=batch_begin,2=epoch_end)": hooks, "history": hist[:4]})
  rep.assumptions += ["np.power(v, e) on [0,1] is an oracle in the theorems (pw: zero at 0, range [0,1], monotone); the run instantiates it with "
                      "integer exponents and compares scheduler values to 2^-48 relative, exactly at the ends (0 before start, 1 from finish)",
                      "python-float vs float32 conversion of the factor follows TensorFlow's scalar conversion (float32 rounding of the double)"]
  return rep.finish(vlib.TRUSTED_COMMON + ["translators tools/translate/{schedgen,lingen}.py regenerate coq/gen/{SchedGen,LinGen}.v (scheduler state machine; the mixture returned by quantized_linear)",
                                          "models Quant/Noise.v, Quant/Fixed.v are hand-written; tie = comparison with the implementation on every generated case"])


if __name__ == "__main__":
  sys.exit(main())

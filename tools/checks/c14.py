"""C14 -- exported quantized weights equal inference weights and rebuild from the hardware form."""
import os
import sys

sys.path.insert(0, os.path.dirname(os.path.dirname(os.path.abspath(__file__))))
import vlib  # noqa: E402
from harness import env  # noqa: E402
import numpy as np  # noqa: E402

PROP = "C14"
tf = env.tf
HEADER = ("From Coq Require Import ZArith List Bool.\n"
          "From QV Require Import Base.ZQ Base.FL Export.Export.\n"
          "Open Scope Z_scope. Import ListNotations.\n")

# weight quantizers by class.  'ind' = scale independent of the data (idempotence and prediction invariance are demanded)
# NOTE: a layer turns a kernel quantizer with alpha=None into alpha="auto_po2" (_set_trainable_parameter), so the data-independent
# kernel options spell alpha=1.0; whether a model is data independent is read off the built layers' quantizer objects.
WQ = [("fixed", "quantized_bits(4,0,1,alpha=1.0)", True), ("fixed", "quantized_bits(8,2,1,alpha=1.0)", True), ("fixed", "quantized_bits(6,1,1,alpha=1.0)", True),
      ("fixed", "quantized_bits(3,0,0,alpha=1.0)", True), ("fixed", "quantized_bits(5,0,1,0,alpha=1.0)", True),
      ("po2", "quantized_po2(4)", True), ("po2", "quantized_po2(6)", True), ("po2", "quantized_po2(5,max_value=2.0)", True),
      ("po2", "quantized_po2(8)", True), ("po2", "quantized_po2(7,max_value=2.0)", True),      # exponents far below log2(epsilon)
      ("binary", "binary(alpha=1.0)", True), ("ternary", "ternary(alpha=1.0)", True), ("binary", "binary(use_01=1,alpha=1.0)", True),
      ("const-alpha", "quantized_bits(6,0,1,alpha=2.0)", True),
      ("auto_po2", "quantized_bits(6,1,1,alpha='auto_po2')", False), ("auto_po2", "quantized_bits(4,0,1,alpha='auto_po2')", False),
      ("auto_po2", "quantized_bits(8,2,1,alpha='auto_po2')", False), ("auto_po2", "quantized_bits(4,0,1)", False),
      ("binary-auto", "binary(alpha='auto')", False), ("ternary-auto", "ternary(alpha='auto')", False), ("binary-auto", "binary(alpha='auto_po2')", False),
      ("ternary-auto", "ternary()", False), ("auto", "quantized_bits(5,0,1,alpha='auto')", False)]
BQ = [("fixed", "quantized_bits(8,3,1)", True), ("po2", "quantized_po2(5)", True), ("relu_po2", "quantized_relu_po2(4)", True), ("po2", "quantized_po2(8)", True),
      ("relu_po2", "quantized_relu_po2(7)", True),
      ("auto_po2", "quantized_bits(6,2,1,alpha='auto_po2')", False), (None, None, True), ("fixed", "quantized_bits(6,1,1)", True)]
AQ = ["quantized_relu(4,2)", "quantized_bits(8,3,1)", "quantized_tanh(4)", None, "relu"]


def pick(rng, l):
  return l[int(rng.integers(0, len(l)))]


NOQ = [0]
NOQ_LAYERS = set()


def gen_model(rng, idx, only_ind=False):
  import tensorflow.keras.layers as L
  from tensorflow.keras import Model, Input
  import qkeras
  meta = {}
  kind = idx % 3 if idx < 9000 else int(rng.integers(0, 3))      # dense / conv2d / conv1d models in rotation

  def wq(name, slot, pool=WQ):
    if only_ind:
      pool = [t for t in pool if t[2]]
    # every fourth weighted layer leaves its FIRST weight slot unquantized and gives the later slots (pointwise / bias) a quantizer
    # with a hardware tuple (po2 signs, auto_po2 scales): the signs / scales lists must stay aligned with the weights
    if slot in ("kernel", "depthwise"):
      NOQ[0] += 1
      if NOQ[0] % 4 == 3:
        NOQ_LAYERS.add(name)
        meta.setdefault(name, []).append((slot, None, None, True))
        return None
    elif name in NOQ_LAYERS:
      pool = [t for t in pool if t[0] in ("po2", "relu_po2", "auto_po2")] or pool
      if only_ind:
        pool = [t for t in pool if t[2]] or pool
    k, s, ind = pick(rng, pool)
    meta.setdefault(name, []).append((slot, k, s, ind))
    return s
  if kind == 0:
    inp = Input((6,), name=f"i{idx}")
    x = inp
  elif kind == 1:
    inp = Input((8, 8, 2), name=f"i{idx}")
    x = inp
    for j in range(int(rng.integers(1, 3))):
      t = int(rng.integers(0, 4))
      ub = bool(rng.integers(0, 3))
      if t == 3:
        n = f"mb{idx}_{j}"
        x = qkeras.QMobileNetSeparableConv2D(int(rng.integers(1, 4)), 3, padding="same", use_bias=ub, depthwise_quantizer=wq(n, "depthwise"),
                                             pointwise_quantizer=wq(n, "pointwise"), bias_quantizer=wq(n, "bias", BQ) if ub else None, name=n)(x)
      elif t == 0:
        n = f"c{idx}_{j}"
        x = qkeras.QConv2D(int(rng.integers(1, 4)), 3, padding="same", use_bias=ub, kernel_quantizer=wq(n, "kernel"),
                           bias_quantizer=wq(n, "bias", BQ) if ub else None, activation=pick(rng, AQ), name=n)(x)
      elif t == 1:
        n = f"dw{idx}_{j}"
        x = qkeras.QDepthwiseConv2D(3, padding="same", depth_multiplier=int(rng.integers(1, 3)), use_bias=ub, depthwise_quantizer=wq(n, "depthwise"),
                                    bias_quantizer=wq(n, "bias", BQ) if ub else None, activation=pick(rng, AQ), name=n)(x)
      else:
        n = f"sp{idx}_{j}"
        x = qkeras.QSeparableConv2D(int(rng.integers(1, 4)), 3, padding="same", use_bias=ub, depthwise_quantizer=wq(n, "depthwise"),
                                    pointwise_quantizer=wq(n, "pointwise"), bias_quantizer=wq(n, "bias", BQ) if ub else None, name=n)(x)
    pk = (idx // 3) % 3                      # pooling in rotation: none, windowed (square / rectangular), global
    if pk == 1:
      x = qkeras.QAveragePooling2D(pick(rng, [2, (2, 1), (1, 2), (2, 4)]), average_quantizer=pick(rng, ["quantized_bits(8,0,1)", "quantized_bits(4,0,0)"]), name=f"p{idx}")(x)
      x = L.Flatten(name=f"f{idx}")(x)
    elif pk == 2:
      x = qkeras.QGlobalAveragePooling2D(average_quantizer=pick(rng, ["quantized_bits(8,0,1)", "quantized_bits(10,0,0)"]), name=f"gp{idx}")(x)
    else:
      x = L.Flatten(name=f"f{idx}")(x)
  else:
    inp = Input((10, 3), name=f"i{idx}")
    n = f"c1_{idx}"
    ub = bool(rng.integers(0, 3))
    if rng.integers(0, 3) == 0:
      n = f"s1_{idx}"
      x = qkeras.QSeparableConv1D(int(rng.integers(1, 4)), 3, padding=pick(rng, ["valid", "same"]), use_bias=ub, depthwise_quantizer=wq(n, "depthwise"),
                                  pointwise_quantizer=wq(n, "pointwise"), bias_quantizer=wq(n, "bias", BQ) if ub else None, name=n)(inp)
    else:
      x = qkeras.QConv1D(int(rng.integers(1, 4)), 3, padding=pick(rng, ["valid", "same"]), use_bias=ub, kernel_quantizer=wq(n, "kernel"),
                         bias_quantizer=wq(n, "bias", BQ) if ub else None, activation=pick(rng, AQ), name=n)(inp)
    x = L.Flatten(name=f"f{idx}")(x)
  for j in range(int(rng.integers(1, 3))):
    n = f"d{idx}_{j}"
    ub = bool(rng.integers(0, 3))
    x = qkeras.QDense(int(rng.integers(1, 5)), use_bias=ub, kernel_quantizer=wq(n, "kernel"),
                      bias_quantizer=wq(n, "bias", BQ) if ub else None, activation=pick(rng, AQ), name=n)(x)
  return Model(inp, x, name=f"qm{idx}"), meta


def qname(q):
  return getattr(q, "__name__", None) or q.__class__.__name__


def same_bits(a, b):
  a, b = np.asarray(a, dtype=np.float32), np.asarray(b, dtype=np.float32)
  return a.shape == b.shape and env.f2b(a) == env.f2b(b)


class StandInBN:
  """the attributes add_bn_fusing_weights reads from a QBatchNormalization layer"""

  def __init__(self, c, rng, scale, center, quantized):
    from qkeras.quantizers import get_quantizer
    self.name = "bn"
    self.scale, self.center, self.epsilon = scale, center, float(pick(rng, [1e-3, 1e-5]))
    self.ws = []
    if scale:
      self.ws.append(rng.uniform(0.3, 2.0, size=c).astype(np.float32) * rng.choice([-1, 1], size=c).astype(np.float32))
    if center:
      self.ws.append(rng.normal(0, 1, size=c).astype(np.float32))
    self.ws.append(rng.normal(0, 1, size=c).astype(np.float32))
    self.ws.append(rng.uniform(0.05, 3.0, size=c).astype(np.float32))
    # quantized: 0 none, 1 parameter quantizers, 2 inverse quantizer (gamma / variance quantizers must then be absent)
    q = lambda s, on: get_quantizer(s) if on else None
    self.gamma_quantizer_internal = q("quantized_bits(8,2,1)", quantized == 1)
    self.beta_quantizer_internal = q("quantized_bits(8,3,1)", quantized >= 1)
    self.mean_quantizer_internal = q("quantized_bits(10,3,1)", quantized >= 1)
    self.variance_quantizer_internal = q("quantized_relu(10,3)", quantized == 1)
    self.inverse_quantizer_internal = q("quantized_bits(12,3,1)", quantized == 2)
    self.quantizers = [self.gamma_quantizer_internal, self.beta_quantizer_internal, self.mean_quantizer_internal,
                       self.variance_quantizer_internal, self.inverse_quantizer_internal]

  def get_weights(self):
    return list(self.ws)


class StandInPrev:
  def __init__(self, c, rng, use_bias):
    self.name, self.use_bias = "prev", use_bias
    self.ws = [rng.normal(0, 1, size=(3, c)).astype(np.float32)] + ([rng.normal(0, 1, size=c).astype(np.float32)] if use_bias else [])

  def get_weights(self):
    return list(self.ws)


def main():
  rep = vlib.Report(PROP, "proof")
  from translate import exportgen
  xgen = exportgen.emit(vlib.GEN)
  info = vlib.build_obligations(PROP, gen_files=[xgen], extra_files=[os.path.join(vlib.COQ, "theories", "Link", "ExportLink.v")])
  errs = rep.obligations(info, "python3 tools/translate/exportgen.py coq/gen && coqc coq/gen/ExportGen.v && coqc coq/theories/Link/ExportLink.v && coqc coq/theories/Properties/C14.v")
  for e in errs:
    rep.violation("obligation-" + os.path.basename(e["file"]), "proof obligation no longer checks: " + e["error"][-400:],
                  {"file": e["file"]}, no_input=True)
  import qkeras.utils as U
  from tensorflow.python.ops import math_ops
  rng = np.random.default_rng(vlib.SEED)
  env.install_learning_phase()
  env.set_phase(0)
  rep.cov["rule"] = ("random quantized models (QDense, QConv1D, QConv2D, QDepthwiseConv2D, QSeparableConv2D, QAveragePooling2D) x weight / bias quantizers "
                     "(fixed point, constant alpha, po2 with/without max_value, relu_po2, auto_po2, binary / ternary with constant and auto scales) x random "
                     "weights x one and two consecutive model_save_quantized_weights calls: layer weights = quantizer(previous weights) bitwise, "
                     "hardware tuples sent to the Coq checkers element by element, predictions before/after, second export; plus add_bn_fusing_weights "
                     "on stand-in layers against the float32 evaluation-order model. distinct = distinct (model JSON) / (bn configuration)")
  # the public entry point needs the Keras-2 graph helper: find_bn_fusing_layer_pair -> qgraph
  orig_find = U.find_bn_fusing_layer_pair
  try:
    m0, _ = gen_model(np.random.default_rng(1), 9999)
    orig_find(m0)
  except Exception as e:  # pylint: disable=broad-except
    rep.finding("C14-bn-pair-finder-needs-keras2-graph",
                f"find_bn_fusing_layer_pair (called first by model_save_quantized_weights) raises {type(e).__name__}: {str(e)[:140]}; "
                "the harness installs the four Keras-2 accessor shims of harness/env.py, after which the real pair finder runs unmodified", {})
  env.install_keras2_graph_shims()
  n = 16 if rep.tier == "quick" else 300
  po2_t, auto_t, items = [], [], []
  book_items = []
  n_ok = n_ind = n_frozen = 0
  sample = None
  for i in range(n):
    try:
      m, meta = gen_model(rng, i, only_ind=bool(i % 2))
    except Exception as e:  # pylint: disable=broad-except
      rep.violation(f"build-{i}", f"model construction raised {type(e).__name__}: {str(e)[:300]}", {})
      continue
    ws = [rng.normal(0, 0.7, size=w.shape).astype(np.float32) * np.float32(2.0 ** int(rng.integers(-2, 2))) for w in m.get_weights()]
    for w_ in ws:
      r_ = int(rng.integers(0, 4))
      if r_ == 0:
        w_.reshape(-1)[::3] = 0.0                # pruned entries
      elif r_ == 1 and w_.ndim == 1:
        w_[...] = 0.0                            # a bias left at its zero initialisation
      elif r_ == 2:
        w_.reshape(-1)[0] = np.float32(1e-30)    # tiny (far below every code)
    m.set_weights(ws)
    # frozen layers (fine-tuning with part of the network fixed): the export must quantize their weights as well.  In rotation:
    # no frozen layer, one frozen weight-bearing quantized layer, every layer frozen
    wl_ = [l for l in m.layers if hasattr(l, "get_quantizers") and l.get_weights()]
    if i % 3 == 1 and wl_:
      wl_[(i // 3) % len(wl_)].trainable = False
    elif i % 6 == 5:
      for l_ in wl_:
        l_.trainable = False
    n_frozen += sum(1 for l_ in wl_ if not l_.trainable)
    rep.count(m.to_json())
    x = tf.constant(rng.normal(0, 1, size=(3,) + tuple(m.input_shape[1:])).astype(np.float32))
    ind = all(not isinstance(getattr(q, "alpha", None), str) for l in m.layers if hasattr(l, "get_quantizers") for q in l.get_quantizers() if q is not None)
    has_const_alpha = any(t[1] == "const-alpha" for v in meta.values() for t in v)
    y0 = m(x).numpy()
    qlayers = [l for l in m.layers if hasattr(l, "get_quantizers")]
    want = {}
    for l in qlayers:
      want[l.name] = [np.asarray(q(tf.constant(w))) if q else w for q, w in zip(l.get_quantizers(), l.get_weights())]
    try:
      d = U.model_save_quantized_weights(m)
    except Exception as e:  # pylint: disable=broad-except
      rep.violation(f"export-raises-{i}", f"model_save_quantized_weights raised {type(e).__name__}: {str(e)[:300]}", {"quantizers": meta})
      continue
    if sample is None:
      sample = {"layers": [(type(l).__name__, l.name) for l in m.layers], "quantizers": {k: [t[2] for t in v] for k, v in meta.items()}}
    good = True
    for l in qlayers:
      got = l.get_weights()
      e = d.get(l.name)
      if e is None:
        rep.violation(f"missing-entry-{i}-{l.name}", f"no dictionary entry for quantized layer {l.name}", {})
        good = False
        continue
      # the bookkeeping of this layer's entry against the regenerated loop (Export/Book.v via coq/gen/ExportGen.v)
      def kind_(q_):
        if q_ is None:
          return "KNone"
        n_ = qname(q_)
        return {"quantized_po2": "KPo2", "quantized_relu_po2": "KReluPo2"}.get(n_) or ("KAutoPo2" if n_ == "quantized_bits" and q_.alpha == "auto_po2"
                                                                                         else ("KFixed" if n_ == "quantized_bits" else "KOtherQ"))
      ks_ = [kind_(q_) for q_, _w in zip(l.get_quantizers(), got)]
      nonempty = lambda v: int(np.asarray(v).size > 0)
      sg_, sc_ = e.get("signs"), e.get("scales")
      obs = [int(sg_ is not None), int(sc_ is not None), len(e["weights"])]
      obs += [nonempty(v) for v in sg_] if sg_ is not None else []
      obs += [nonempty(v) for v in sc_] if sc_ is not None else []
      book_items.append((i, l.name, type(l).__name__, ks_, obs))
      for k, (q, w_want, w_got) in enumerate(zip(l.get_quantizers(), want[l.name], got)):
        if not same_bits(w_want, w_got):
          good = False
          j = int(np.where(np.asarray(env.f2b(w_want)) != np.asarray(env.f2b(w_got)))[0][0])
          rep.violation(f"weights-not-q-of-previous-{i}-{l.name}-{k}",
                        f"{type(l).__name__} weight {k} ({q}): layer holds {w_got.reshape(-1)[j]} but quantizer(previous weight) = {np.asarray(w_want).reshape(-1)[j]}",
                        {"quantizers": meta.get(l.name)})
          continue
        hw = np.asarray(e["weights"][k], dtype=np.float32)
        qn = qname(q) if q else ""
        if q and "_po2" in qn:
          sg = e.get("signs")
          if qn == "quantized_po2":
            if sg is None or len(sg) <= k or np.asarray(sg[k]).shape != w_got.shape:
              good = False
              rep.violation(f"signs-misaligned-{i}-{l.name}-{k}", f"{l.name}: weight {k} is quantized_po2 but signs[{k}] does not describe it "
                            f"(signs has {0 if sg is None else len(sg)} entries for {len(got)} weights)", {"quantizers": meta.get(l.name)})
              continue
            sgn = np.asarray(sg[k], dtype=np.float32)
          else:
            sgn = np.ones_like(w_got)
          fin = np.isfinite(hw)
          if not np.all(fin):
            # a stored weight of exactly 0 is not a power of two at all: the quantizer's float32 straight-through sum absorbed
            # the code (C03 finding); its exponent is -inf.  Any other non-finite exponent is a violation.
            zero_w = (w_got == 0)
            if np.any(~fin & ~zero_w):
              good = False
              rep.violation(f"po2-exponent-not-finite-{i}-{l.name}-{k}", f"{l.name} weight {k} ({q}): exported exponent is not finite for a non-zero weight", {})
            else:
              rep.finding("C14-po2-code-absorbed-to-zero-has-no-exponent", f"{l.name} weight {k} ({q}): {int(np.sum(~fin))} stored weight(s) are exactly 0.0 "
                          "(code absorbed by the float32 straight-through sum), exported exponent -inf", {"quantizer": str(q)})
          for a, b, c_, ok_ in zip(env.f2b(w_got), env.f2b(sgn), env.f2b(np.where(fin, hw, 0.0)), fin.reshape(-1)):
            if ok_:
              po2_t.append(f"chk_po2_tuple {a} {b} {c_}")
              items.append(("po2", i, l.name, k, str(q), (a, b, c_)))
        elif qn == "quantized_bits" and q.alpha == "auto_po2":
          sc = e.get("scales")
          if sc is None or len(sc) <= k or np.asarray(sc[k]).size == 0:
            good = False
            rep.violation(f"scales-misaligned-{i}-{l.name}-{k}", f"{l.name}: weight {k} is auto_po2 but scales[{k}] is missing", {})
            continue
          so = np.broadcast_to(np.asarray(sc[k], dtype=np.float32), w_got.shape)
          S = np.broadcast_to(np.asarray(q.scale, dtype=np.float32), w_got.shape)
          ub = q.bits - int(q.keep_negative)
          for a, b, c_, o in zip(env.f2b(w_got), env.f2b(S), env.f2b(hw), env.f2b(so)):
            auto_t.append(f"chk_auto_tuple {q.bits} {ub} {int(q.integer)} {a} {b} {c_} {o}")
            items.append(("auto", i, l.name, k, str(q), (a, b, c_, o)))
        else:
          if not same_bits(hw, w_got):
            good = False
            rep.violation(f"hw-weight-differs-{i}-{l.name}-{k}", f"{l.name} weight {k} ({q}): dictionary weight differs from the stored weight", {})
      if type(l).__name__ in ("QAveragePooling2D", "QGlobalAveragePooling2D"):
        area = int(np.prod(l.pool_size)) if type(l).__name__ == "QAveragePooling2D" else int(np.prod(l.input.shape[1:3]))
        wantq = np.asarray(l.average_quantizer_internal(1.0 / area))
        if e.get("pool_area") != area or not same_bits(e.get("q_mult_factor"), wantq) or e.get("mult_factor") != 1.0 / area:
          good = False
          rep.violation(f"pool-entry-{i}-{l.name}", f"{l.name}: pooling entry {e} does not describe 1/pool_area = 1/{area}", {})
    # predictions and the second export
    y1 = m(x).numpy()
    w1 = m.get_weights()
    if ind:
      n_ind += 1
      tag = "C14-const-alpha-export-changes-predictions" if has_const_alpha else None
      if tag is None and any(t[2] and "use_01=1" in t[2] for v in meta.values() for t in v):
        tag = "C14-binary-01-export-changes-predictions"
      if not same_bits(y0, y1):
        good = False
        msg = f"model {i}: predictions changed by the export (max abs diff {float(np.max(np.abs(y0 - y1)))}); quantizers {meta}"
        if tag:
          rep.finding(tag, "a data-independent quantizer that is not idempotent (constant alpha != 1 / binary use_01), so exporting changes the function: " + msg, {"quantizers": meta})
        else:
          rep.violation(f"predictions-changed-{i}", msg, {"quantizers": meta})
      try:
        d2 = U.model_save_quantized_weights(m)
        w2 = m.get_weights()
        diff = [f"weight tensor {k_}" for k_, (a, b) in enumerate(zip(w1, w2)) if not same_bits(a, b)]
        for ln in d:
          for k in ("weights", "signs", "scales"):
            if k in d[ln]:
              diff += [f"{ln}[{k}][{k_}]" for k_, (a, b) in enumerate(zip(d[ln][k], d2[ln][k])) if np.asarray(a).size and not same_bits(a, b)]
        same = not diff
        if not same:
          good = False
          msg = f"model {i}: a second export changed {diff}; quantizers {meta}"
          if tag:
            rep.finding(tag, "second export not idempotent (constant alpha != 1 / binary use_01): " + msg, {"quantizers": meta})
          else:
            rep.violation(f"second-export-changes-{i}", msg, {"quantizers": meta})
      except Exception as e:  # pylint: disable=broad-except
        good = False
        rep.violation(f"second-export-raises-{i}", f"second export raised {type(e).__name__}: {str(e)[:200]}", {"quantizers": meta})
    if good:
      n_ok += 1
  # ---- batch-norm fusing terms on stand-in layers
  bn_t, bn_items = [], []
  nb = 24 if rep.tier == "quick" else 400
  for i in range(nb):
    c = int(rng.integers(1, 5))
    scale, center, quant, ub = bool(rng.integers(0, 4)), bool(rng.integers(0, 4)), int(rng.integers(0, 3)), bool(rng.integers(0, 3))
    bn, prev = StandInBN(c, rng, scale, center, quant), StandInPrev(c, rng, ub)
    rep.count(("bn", scale, center, quant, ub, c, i))
    sw = {"prev": {"weights": [], "enable_bn_fusing": False}}
    try:
      U.add_bn_fusing_weights(prev, bn, sw)
    except Exception as e:  # pylint: disable=broad-except
      rep.violation(f"bn-fusing-raises-{i}", f"add_bn_fusing_weights raised {type(e).__name__}: {str(e)[:200]}", {})
      continue
    e = sw["prev"]
    if not (e.get("enable_bn_fusing") is True and e.get("fused_bn_layer_name") == "bn"):
      rep.violation(f"bn-fusing-flags-{i}", f"entry does not mark the fusing pair: {list(e)}", {})
    ap = lambda q, v: np.asarray(q(tf.constant(v))) if q is not None else v
    idx = 0
    gamma = np.ones(c, dtype=np.float32)
    beta = np.zeros(c, dtype=np.float32)
    if scale:
      gamma = ap(bn.gamma_quantizer_internal, bn.ws[idx]); idx += 1
    if center:
      beta = ap(bn.beta_quantizer_internal, bn.ws[idx]); idx += 1
    mean = ap(bn.mean_quantizer_internal, bn.ws[idx]); idx += 1
    var = ap(bn.variance_quantizer_internal, bn.ws[idx])
    r = math_ops.rsqrt(tf.constant(var) + bn.epsilon).numpy()
    inv_raw = (tf.constant(gamma) * tf.constant(r)).numpy()
    inv = np.asarray(e["bn_inv"], dtype=np.float32)
    if quant == 2:
      # the inverse quantizer is applied to gamma * rsqrt(var + eps)
      if not same_bits(inv, np.asarray(bn.inverse_quantizer_internal(tf.constant(inv_raw)))):
        rep.violation(f"bn-inv-not-quantized-{i}", "bn_inv is not inverse_quantizer(gamma * rsqrt(variance + epsilon))", {})
    b = prev.ws[1] if ub else np.zeros(c, dtype=np.float32)
    fb = np.broadcast_to(np.asarray(e["fused_bias"], dtype=np.float32), (c,))
    # real-valued algebra: BN(y + b) = inv * y + fused_bias on a probe y
    yv = rng.normal(0, 2, size=c)
    lhs = inv.astype(np.float64) * (yv + b.astype(np.float64) - mean.astype(np.float64)) + beta.astype(np.float64)
    rhs = inv.astype(np.float64) * yv + fb.astype(np.float64)
    if not np.allclose(lhs, rhs, rtol=1e-5, atol=1e-5 * (1 + float(np.max(np.abs(lhs))))):
      rep.violation(f"bn-fuse-algebra-{i}", f"inv*y + fused_bias differs from batch-norm(y + bias): {lhs} vs {rhs}", {"scale": scale, "center": center, "use_bias": ub})
    gb, rb = env.f2b(np.broadcast_to(gamma, (c,))), env.f2b(r)
    for j in range(c):
      bn_t.append(f"chk_bn_fuse {gb[j]} {rb[j]} {env.f2b(b)[j]} {env.f2b(np.broadcast_to(beta, (c,)))[j]} {env.f2b(mean)[j]} "
                  f"{env.f2b(inv_raw if quant == 2 else inv)[j]} {env.f2b(fb)[j] if quant != 2 else 0}")
      bn_items.append((i, j, scale, center, quant, ub))
    if quant == 2:
      # with an inverse quantizer the fused bias is computed from the QUANTIZED factor: checked separately
      for j in range(c):
        bn_t.append(f"chk_bn_fuse {env.f2b(inv)[j]} {env.f2b(np.ones(c, dtype=np.float32))[j]} {env.f2b(b)[j]} "
                    f"{env.f2b(np.broadcast_to(beta, (c,)))[j]} {env.f2b(mean)[j]} {env.f2b(inv)[j]} {env.f2b(fb)[j]}")
        bn_items.append((i, j, scale, center, "quantized-inv", ub))
  # ---- Coq evaluation
  SH = 400
  texts = [("po2", po2_t), ("auto", auto_t), ("bn", bn_t)]
  shards = []
  for kind, tt in texts:
    for s in range(0, len(tt), SH):
      shards.append((f"{PROP}_{kind}_{s // SH:03d}", HEADER + "Eval vm_compute in [" + ";\n ".join(tt[s:s + SH]) + "].\n"))
  outs = vlib.coq_eval_many(shards)
  res = {k: [] for k, _ in texts}
  for kind, tt in texts:
    for s in range(0, len(tt), SH):
      res[kind] += outs[f"{PROP}_{kind}_{s // SH:03d}"][0]
  tup = [it for it in items if it[0] == "po2"]
  bad_po2 = bad_auto = bad_bn = 0
  seen = set()
  for it, r_ in zip(tup, res["po2"]):
    if r_ and (it[1], it[2], it[3]) not in seen:
      seen.add((it[1], it[2], it[3]))
      bad_po2 += 1
      w, s_, e_ = env.b2f(list(it[5]))
      rep.violation(f"po2-tuple-{it[1]}-{it[2]}-{it[3]}", f"{it[2]} weight {it[3]} ({it[4]}): sign {s_} * 2^{e_} does not rebuild the stored weight {w} "
                    f"(checker code {r_}: 1 sign, 2 exponent, 4 rebuild)", {"w_bits": it[5][0], "sign_bits": it[5][1], "exp_bits": it[5][2]})
  tup = [it for it in items if it[0] == "auto"]
  for it, r_ in zip(tup, res["auto"]):
    if r_ and (it[1], it[2], it[3]) not in seen:
      seen.add((it[1], it[2], it[3]))
      bad_auto += 1
      w, S, h, o = env.b2f(list(it[5]))
      rep.violation(f"auto-po2-tuple-{it[1]}-{it[2]}-{it[3]}", f"{it[2]} weight {it[3]} ({it[4]}): stored weight {w}, quantizer scale {S}: exported integer weight {h}, "
                    f"scale {o} (checker code {r_}: 1 hw != w*m/(m_i*S), 2 scale, 4 not an integer, 8 outside the bit range, 16 scale*hw != weight)",
                    {"bits": it[5]})
  for it, r_ in zip(bn_items, res["bn"]):
    if it[4] == 2:
      r_ = r_ & 1     # only the unquantized factor is judged in this row
    if r_:
      bad_bn += 1
      rep.violation(f"bn-fuse-float-{it[0]}-{it[1]}", f"add_bn_fusing_weights (scale={it[2]}, center={it[3]}, quantized={it[4]}, use_bias={it[5]}) channel {it[1]}: "
                    f"bn_inv / fused_bias differ from gamma*rsqrt(var+eps) / inv*bias + beta - inv*mean (code {r_})", {})
  # bookkeeping of every exported layer: the dictionary entry against the loop regenerated from utils.py, run in Coq on the layer's own quantizer kinds
  if book_items and not errs:
    bbody = ("From Coq Require Import List ZArith.\nFrom QV Require Import Export.Book.\nFrom QVGen Require Import ExportGen.\nImport ListNotations.\n" +
             "".join(f"Eval vm_compute in render_book (run gen_effect [{'; '.join(ks_)}]).\n" for _i, _n, _c, ks_, _o in book_items))
    bouts = vlib.coq_eval(PROP + "_book", bbody)
    n_book = 0
    for (i_, name_, cls_, ks_, obs), bk in zip(book_items, bouts):
      nw = bk[2]
      want = [bk[0], bk[1], nw] + (bk[3:3 + nw] if bk[0] else []) + (bk[3 + nw:3 + 2 * nw] if bk[1] else [])
      if obs != want:
        rep.violation(f"export-bookkeeping-{i_}-{name_}", f"{cls_} {name_} with weight quantizer kinds {ks_}: the dictionary entry has [signs present, scales present, #weights, "
                      f"non-empty sign entries, non-empty scale entries] = {obs} but the export loop run on these kinds gives {want}", {"kinds": ks_})
      else:
        n_book += 1
    rep.note(export_bookkeeping=dict(layers=len(book_items), agree=n_book, with_unquantized_slot=sum(1 for it in book_items if "KNone" in it[3])))
  rep.note(models=n, frozen_quantized_layers=n_frozen, models_all_checks_ok=n_ok, data_independent_models=n_ind, po2_elements=len(res["po2"]), auto_po2_elements=len(res["auto"]),
           bn_fusing_channels=len(res["bn"]), bad_po2_tensors=bad_po2, bad_auto_tensors=bad_auto, bad_bn_channels=bad_bn)
  if sample:
    rep.sample(sample)
  # ---- the freezing utility (post-training scale): afterwards the export must be repeatable
  import qkeras
  from tensorflow.keras import Model, Input
  co = {}
  U._add_supported_quantized_objects(co)  # pylint: disable=protected-access
  nf = 4 if rep.tier == "quick" else 40
  n_fr = 0
  for i in range(nf):
    try:
      kq = pick(rng, [t[1] for t in WQ if t[0] == "auto_po2"])
      if i % 2:
        i_ = Input((5,), name=f"fin{i}")
        o_ = qkeras.QDense(int(rng.integers(1, 5)), kernel_quantizer=kq, bias_quantizer="quantized_bits(8,3,1)", name=f"fd{i}")(i_)
      else:
        i_ = Input((6, 6, 2), name=f"fin{i}")
        o_ = qkeras.QConv2D(int(rng.integers(1, 4)), 3, kernel_quantizer=kq, bias_quantizer="quantized_po2(5)", name=f"fc{i}")(i_)
        o_ = qkeras.QDepthwiseConv2D(3, depthwise_quantizer=pick(rng, [t[1] for t in WQ if t[0] == "auto_po2"]), name=f"fdw{i}")(o_)
      sm = Model(i_, o_)
      sm.set_weights([rng.normal(0, 0.6, size=w.shape).astype(np.float32) for w in sm.get_weights()])
      rep.count(("freeze", sm.to_json()))
      xs = tf.constant(rng.normal(0, 1, size=(3,) + tuple(sm.input_shape[1:])).astype(np.float32))
      with tf.keras.utils.custom_object_scope(co):
        fm, hw = U.clone_model_and_freeze_auto_po2_scale(sm, quantize_model_weights=True)
      yq, wq_ = fm(xs).numpy(), fm.get_weights()
      hw2 = U.model_save_quantized_weights(fm)
      same = same_bits(fm(xs).numpy(), yq) and all(same_bits(a, b) for a, b in zip(wq_, fm.get_weights()))
      for ln in hw:
        for k in ("weights", "scales"):
          if k in hw[ln]:
            same = same and all(same_bits(a, b) for a, b in zip(hw[ln][k], hw2[ln][k]) if np.asarray(a).size)
      if not same:
        rep.violation(f"frozen-scale-export-not-repeatable-{i}", f"after clone_model_and_freeze_auto_po2_scale ({kq}) a further export changed weights, "
                      "dictionary or predictions", {"kernel_quantizer": kq})
      else:
        n_fr += 1
    except Exception as e:  # pylint: disable=broad-except
      rep.violation(f"freeze-raises-{i}", f"clone_model_and_freeze_auto_po2_scale raised {type(e).__name__}: {str(e)[:200]}", {})
  rep.note(frozen_scale_models=nf, frozen_scale_models_repeatable=n_fr)
  # ---- a scale frozen by hand, as a float32 array (post_training_scale=q.scale.numpy()): the quantizer then HOLDS that array, and an
  # export must neither change it nor the predictions; a second export must change nothing
  import qkeras.quantizers as QZ
  n_hand = n_hand_ok = 0
  for i in range(4 if rep.tier == "quick" else 24):
    try:
      bits_, int_ = int(rng.choice([4, 6, 8])), int(rng.choice([0, 1, 2]))
      probe_q = QZ.quantized_bits(bits_, int_, 1, alpha="auto_po2")
      units_ = int(rng.integers(2, 5))
      w0 = rng.normal(0, 0.6, size=(5, units_)).astype(np.float32)
      probe_q(tf.constant(w0))
      sc = np.asarray(probe_q.scale.numpy(), dtype=np.float32)
      kq_ = QZ.quantized_bits(bits_, int_, 1, alpha="auto_po2", post_training_scale=sc)
      i_ = Input((5,), name=f"hin{i}")
      hm = Model(i_, qkeras.QDense(units_, kernel_quantizer=kq_, bias_quantizer="quantized_bits(8,3,1)", name=f"hd{i}")(i_))
      hm.set_weights([w0, rng.normal(0, 0.5, size=(units_,)).astype(np.float32)])
      rep.count(("hand-frozen", bits_, int_, units_, i))
      xs = tf.constant(rng.normal(0, 1, size=(3, 5)).astype(np.float32))
      y0 = hm(xs).numpy()
      sc0 = np.array(sc, copy=True)
      d1 = U.model_save_quantized_weights(hm)
      y1, w1 = hm(xs).numpy(), [w.copy() for w in hm.get_weights()]
      d2 = U.model_save_quantized_weights(hm)
      y2, w2 = hm(xs).numpy(), hm.get_weights()
      n_hand += 1
      held = np.asarray(hm.layers[-1].kernel_quantizer_internal.scale if hasattr(hm.layers[-1].kernel_quantizer_internal.scale, "shape") else sc)
      why = None
      if not same_bits(np.broadcast_to(held, sc0.shape) if np.size(held) == np.size(sc0) else sc0, sc0) or not same_bits(sc, sc0):
        why = "the frozen scale array handed to the quantizer was modified by the export"
      elif not same_bits(y0, y1):
        why = f"predictions changed by the first export (max abs diff {float(np.max(np.abs(y0 - y1)))})"
      elif not (same_bits(y1, y2) and all(same_bits(a_, b_) for a_, b_ in zip(w1, w2))):
        why = "a second export changed weights or predictions"
      elif any(not same_bits(a_, b_) for k_ in ("weights", "scales") for a_, b_ in zip(d1[f"hd{i}"].get(k_, []), d2[f"hd{i}"].get(k_, [])) if np.asarray(a_).size):
        why = "a second export changed the dictionary"
      if why:
        rep.violation(f"hand-frozen-scale-{i}", f"QDense with quantized_bits({bits_},{int_},1,alpha='auto_po2', post_training_scale=<float32 array>): {why}",
                      {"bits": bits_, "integer": int_})
      else:
        n_hand_ok += 1
    except Exception as e:  # pylint: disable=broad-except
      rep.violation(f"hand-frozen-raises-{i}", f"export of a model with a hand-frozen float32 scale raised {type(e).__name__}: {str(e)[:200]}", {})
  rep.note(hand_frozen_float32_scale_models=n_hand, hand_frozen_ok=n_hand_ok)
  # ---- ONE quantizer object serving two weight slots of a layer (QDense(kernel_quantizer=q, bias_quantizer=q), a separable
  # convolution with q for depthwise and pointwise): a quantizer remembers only the scale of its LAST call, so every slot must be
  # described with the scale of ITS OWN quantization: scale * integer weight = stored weight, integers inside the bit range
  n_sh = n_sh_ok = 0
  for i in range(4 if rep.tier == "quick" else 16):
    try:
      bits_ = int([4, 6, 5, 8][i % 4])
      mk = lambda: QZ.quantized_bits(bits_, 0, 1, alpha="auto_po2")
      q_sh = mk()
      if i % 2 == 0:
        i_ = Input((6,), name=f"shin{i}")
        lay = qkeras.QDense(3, kernel_quantizer=q_sh, bias_quantizer=q_sh, name=f"shd{i}")
        sm = Model(i_, lay(i_))
        ws = [rng.normal(0, 0.3, size=(6, 3)).astype(np.float32), rng.normal(0, 6.0, size=(3,)).astype(np.float32)]
      else:
        i_ = Input((6, 6, 3), name=f"shin{i}")
        lay = qkeras.QSeparableConv2D(4, 3, use_bias=False, depthwise_quantizer=q_sh, pointwise_quantizer=q_sh, name=f"shs{i}")
        sm = Model(i_, lay(i_))
        ws = [rng.normal(0, 0.2, size=(3, 3, 3, 1)).astype(np.float32), rng.normal(0, 5.0, size=(1, 1, 3, 4)).astype(np.float32)]
      sm.set_weights(ws)
      rep.count(("shared-quantizer-object", bits_, i % 2, i))
      d_ = U.model_save_quantized_weights(sm)[lay.name]
      n_sh += 1
      why = None
      for j, w_ in enumerate(ws):
        fresh = mk()
        wq_ = fresh(tf.constant(w_)).numpy()
        # the dictionary holds scale * 2^integer / 2^(unsigned bits), so that scale * integer weight is the stored weight
        sc_ = (np.asarray(fresh.scale.numpy() if hasattr(fresh.scale, "numpy") else fresh.scale, dtype=np.float32) * np.float32(1.0) / np.float32(2.0 ** (bits_ - 1))).astype(np.float32)
        ew, es = np.asarray(d_["weights"][j]), np.asarray(d_["scales"][j], dtype=np.float32)
        if ew.shape != w_.shape:
          why = f"slot {j}: exported integer weight has shape {ew.shape}, the weight has shape {w_.shape}"
        elif es.size != sc_.size or not same_bits(es.reshape(sc_.shape), sc_):
          why = f"slot {j}: exported scale {es.ravel()[:4]} is not the scale of this slot's own quantization {sc_.ravel()[:4]}"
        elif not same_bits((ew * es.reshape(sc_.shape)).astype(np.float32), wq_):
          why = f"slot {j}: scale * integer weight differs from the quantizer applied once to this weight"
        elif np.any(ew != np.round(ew)) or np.max(np.abs(ew)) > 2 ** (bits_ - 1):
          why = f"slot {j}: exported integer weights {ew.ravel()[:4]} are not integers of a {bits_}-bit format"
        if why:
          break
      if why:
        rep.violation(f"shared-quantizer-object-{i}", f"{type(lay).__name__} whose two weight slots share ONE quantized_bits({bits_},0,1,alpha='auto_po2') object: {why}",
                      {"bits": bits_, "layer": type(lay).__name__})
      else:
        n_sh_ok += 1
    except Exception as e:  # pylint: disable=broad-except
      rep.violation(f"shared-quantizer-object-raises-{i}", f"export of a layer whose slots share one quantizer object raised {type(e).__name__}: {str(e)[:200]}", {})
  rep.note(shared_quantizer_object_models=n_sh, shared_quantizer_object_ok=n_sh_ok)
  try:
    from tensorflow.keras import Sequential
    sq = Sequential([Input((5,), name="sin"), qkeras.QDense(2, kernel_quantizer="quantized_bits(6,1,1,alpha='auto_po2')", name="sqd")])
    with tf.keras.utils.custom_object_scope(co):
      U.clone_model_and_freeze_auto_po2_scale(sq, quantize_model_weights=True)
  except Exception as e:  # pylint: disable=broad-except
    rep.finding("C14-freeze-utility-skips-first-layer-of-sequential-under-keras3",
                f"clone_model_and_freeze_auto_po2_scale on a Sequential model raises {type(e).__name__}: {str(e)[:140]} "
                "(Keras 3 Sequential.layers has no InputLayer, the utility drops layers[0]); functional models are used instead", {})
  # ---- folded conv + batch-norm layers: the dictionary carries quantizer(folded weight), the layer keeps its unfolded weights
  try:
    env.install_keras2_batchnorm_standin()
    from qkeras.qconv2d_batchnorm import QConv2DBatchnorm
    from qkeras.qdepthwiseconv2d_batchnorm import QDepthwiseConv2DBatchnorm
    from tensorflow.keras import Model as Model_
    n_fold = n_fold_ok = 0
    for i in range(6 if rep.tier == "quick" else 60):
      dw = bool(i % 2)
      kq = ["quantized_bits(6,1,1,alpha=1.0)", "quantized_bits(4,0,1,alpha=1.0)", "quantized_po2(5)"][i % 3]
      bq = [None, "quantized_bits(8,3,1)"][(i // 2) % 2]
      i_ = Input((6, 6, 2), name=f"fi{i}")
      if dw:
        fl = QDepthwiseConv2DBatchnorm((2, 2), depthwise_quantizer=kq, bias_quantizer=bq, use_bias=bool(i % 3), scale=bool((i // 3) % 2), name=f"fdw{i}")
      else:
        fl = QConv2DBatchnorm(3, (2, 2), kernel_quantizer=kq, bias_quantizer=bq, use_bias=bool(i % 3), center=bool((i // 3) % 2), name=f"fc{i}")
      fm = Model_(i_, fl(i_), name=f"fm{i}")
      fm(np.zeros((1, 6, 6, 2), dtype="float32"), training=False)
      for v in fl.weights + fl.batchnorm.weights:
        val = rng.uniform(0.2, 1.4, size=v.shape).astype("float32")
        if "variance" not in v.name and "gamma" not in v.name:
          val = val * rng.choice([-1.0, 1.0], size=v.shape).astype("float32")
        v.assign(val)
      w_before = [w.copy() for w in fl.get_weights()]
      fw = [np.asarray(a) for a in fl.get_folded_weights()]
      n_fold += 1
      rep.count(("folded-export", i, dw, kq, bq))
      # the pair finder clones the model by config + set_weights; a cloned folded layer has not yet built its batch-norm stand-in
      # (Keras 3 builds sub-layers at the first eager call), so for these one-layer models - which contain no
      # QBatchNormalization to pair - the finder is replaced by its result on them: no pairs
      real_find = U.find_bn_fusing_layer_pair
      U.find_bn_fusing_layer_pair = lambda model_, custom_objects={}: ({}, set())
      try:
        d_ = U.model_save_quantized_weights(fm)
      finally:
        U.find_bn_fusing_layer_pair = real_find
      ent = d_.get(fl.name, {})
      hwf = ent.get("weights", [])
      qs_ = fl.get_quantizers()
      okf = len(hwf) == 2
      for k in range(2 if okf else 0):
        wantw = qs_[k](tf.constant(fw[k])).numpy() if qs_[k] else fw[k]
        isp = qs_[k] is not None and "po2" in type(qs_[k]).__name__
        if isp:
          wantw = np.round(np.log2(np.abs(wantw)))       # power-of-two weights are stored as exponents, signs separately
        if not same_bits(hwf[k], wantw):
          okf = False
      if not okf:
        rep.violation(f"folded-export-{i}", f"{fl.name} ({kq}, {bq}): the exported weights are not quantizer(get_folded_weights()) "
                      f"(power-of-two: its exponent)", {"kernel_quantizer": kq, "bias_quantizer": bq})
      elif any(not np.array_equal(a, b) for a, b in zip(w_before, fl.get_weights())):
        rep.violation(f"folded-export-touches-layer-{i}", f"{fl.name}: the export overwrote the unfolded weights of a folded layer", {})
      else:
        n_fold_ok += 1
    rep.note(folded_layer_exports=n_fold, folded_layer_exports_ok=n_fold_ok)
  except Exception as e:  # pylint: disable=broad-except
    import traceback
    rep.violation("folded-export-raises", f"export of a folded layer raised {type(e).__name__}: {str(e)[:200]} @ {traceback.format_exc()[-300:]}", {})
  U.find_bn_fusing_layer_pair = orig_find
  rep.assumptions += ["folded layers are built through the batch-norm stand-in of harness/env.py (see C15)",
                      "find_bn_fusing_layer_pair needs four Keras-2 accessors (known finding); the harness installs them as pure accessors and the real finder runs; "
                      "QBatchNormalization does not build under the pinned Keras 3, so add_bn_fusing_weights is driven on stand-in layers exposing the "
                      "attributes it reads; rsqrt is an oracle (the harness passes TensorFlow's value to the model)",
                      "layer weights / predictions / second export are compared bitwise on the implementation; the hardware tuples are judged by the Coq "
                      "checkers (exact rationals decoded from the float32 bits)",
                      "model.save_weights(filename) (HDF5 writing) is runtime behaviour and is not exercised",
                      "clone_model_and_freeze_auto_po2_scale is run inside keras custom_object_scope with qkeras' own custom-object table (its internal "
                      "tf.keras.models.clone_model call passes none, which Keras 3 rejects)",
                      "folded (QConv2DBatchnorm) and recurrent layers do not build under the pinned Keras 3 and are not generated"]
  return rep.finish(vlib.TRUSTED_COMMON + ["translator tools/translate/exportgen.py regenerates coq/gen/ExportGen.v (per-quantizer bookkeeping of model_save_quantized_weights); Link/ExportLink.v proves it equal to Export/Book.v; tensor arithmetic of the exporter is tied by correspondence",
                                          "model Export/Export.v is hand-written; tie = Coq checkers evaluated on the implementation's weights, signs, exponents, "
                                          "integer weights, scales and batch-norm terms"])


if __name__ == "__main__":
  sys.exit(main())

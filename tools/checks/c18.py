"""C18 -- bit widths reported for a concrete model bound the values it really produces."""
import os
import sys
from fractions import Fraction

sys.path.insert(0, os.path.dirname(os.path.dirname(os.path.abspath(__file__))))
import vlib  # noqa: E402
from harness import env  # noqa: E402
import numpy as np  # noqa: E402
import qtools_k as QK  # noqa: E402

PROP = "C18"
tf = env.tf
HEADER = ("From Coq Require Import ZArith List Bool.\n"
          "From QV Require Import Base.ZQ Base.FL QTools.Types QTools.Ops QTools.LayerMap.\n"
          "Open Scope Z_scope. Import ListNotations.\n")

SRC = ["quantized_bits(8,2,1)", "quantized_bits(6,0,0)", "quantized_bits(4,1,1)", "quantized_bits(5,5,1,keep_negative=0)", "quantized_bits(3,0,0)"]
# (kind, string).  alpha=1.0 spelled out: a layer turns alpha=None kernels into auto_po2
WQ = [("fixed", "quantized_bits(4,0,1,alpha=1.0)"), ("fixed", "quantized_bits(6,2,1,alpha=1.0)"), ("fixed-asym", "quantized_bits(3,0,0,alpha=1.0)"),
      ("fixed-asym", "quantized_bits(5,1,0,alpha=1.0)"), ("fixed", "quantized_bits(8,0,1,alpha=1.0)"),
      ("po2", "quantized_po2(4)"), ("po2", "quantized_po2(3)"),
      # max_value that is not a power of two: the largest code is the next power of two above it (log-nearest rounding of the clipped value)
      ("po2-cap", "quantized_po2(4,max_value=3)"), ("po2-cap", "quantized_po2(5,max_value=6)"),
      # max_value <= 1: the quantizer spends no bit on the sign of the exponent, its exponents reach -2^(bits-1)
      ("po2-nosign", "quantized_po2(4,max_value=1)"), ("po2-nosign", "quantized_po2(3,max_value=0.5)"), ("ternary", "ternary(alpha=1.0)"), ("binary", "binary(alpha=1.0)"),
      ("auto_po2", "quantized_bits(4,0,1,alpha='auto_po2')"), ("auto_po2", "quantized_bits(6,1,1,alpha='auto_po2')")]
BQ = ["quantized_bits(6,1,1)", "quantized_bits(8,3,0)", "quantized_bits(4,0,1)", "quantized_po2(4)", None]
AQ = ["quantized_relu(6,2)", "quantized_bits(6,2,1)", "quantized_relu(4,1)", "quantized_bits(4,1,0)", "quantized_relu(3,0)",
      "quantized_relu_po2(4)", "quantized_relu_po2(3,max_value=1)", "quantized_relu_po2(4,negative_slope=0.25)", "quantized_relu(5,1,negative_slope=0.125)",
      # 1-bit relus: (1,1) is the {0,1} gate, (1,0) emits {0, 1/2}
      "quantized_relu(1,0)", "quantized_relu(1,1)"]


PAIRS = [("quantized_relu_po2(4)", "ternary(alpha=1.0)"), ("quantized_relu_po2(4)", "binary(alpha=1.0)"),
         ("quantized_relu_po2(3,max_value=1)", "ternary(alpha=1.0)"), ("quantized_po2(4)", "binary(alpha=1.0)"),
         # one-bit relus in front of a fixed-point kernel: (1,0) emits {0, 1/2} (an ordinary one-bit format), (1,1) is the {0,1} gate
         ("quantized_relu(1,0)", "quantized_bits(4,0,1,alpha=1.0)"), ("quantized_relu(1,1)", "quantized_bits(6,2,1,alpha=1.0)")]


def pick(rng, l):
  return l[int(rng.integers(0, len(l)))]


WL_COUNT = [0]
ACT_COUNT = [0]


def pick_act(rng):
  """activation quantizers in rotation (random starting point), so that the quick tier meets every one of them"""
  if ACT_COUNT[0] == 0:
    ACT_COUNT[0] = 1 + int(rng.integers(0, len(AQ)))
  ACT_COUNT[0] += 1
  return AQ[ACT_COUNT[0] % len(AQ)]


def gen_model(rng, idx, directed=None):
  import tensorflow.keras.layers as L
  from tensorflow.keras import Model, Input
  import qkeras
  if directed is not None and directed >= len(WQ):
    # an UNSIGNED power-of-two activation feeding a signed +-1 kernel (and the signed po2 control): the multiplexer's product type needs
    # a sign bit on top of the po2 operand's bits; with extreme weights and inputs the sum sits at the corner of the accumulator
    act, ws = PAIRS[directed - len(WQ)]
    meta = {"kind": "act-kernel-pair", "layers": [(f"d{idx}_0", "QDense", ws, None)], "activation": act}
    inp = Input((3,), name=f"i{idx}")
    x = qkeras.QActivation(act, name=f"a{idx}_0")(inp)
    x = qkeras.QDense(int(rng.integers(1, 3)), kernel_quantizer=ws, use_bias=False, name=f"d{idx}_0")(x)
    return Model(inp, x, name=f"qm{idx}"), meta
  if directed is not None:
    # one bias-free dense layer fed directly by the source quantizer: with extreme weights and extreme inputs every
    # product and the whole sum sit at the corner of the reported multiplier / accumulator types
    k, ws = WQ[directed]
    meta = {"kind": "dense-corner", "layers": [(f"d{idx}_0", "QDense", ws, None)]}
    inp = Input((4,), name=f"i{idx}")
    x = qkeras.QDense(int(rng.integers(1, 4)), kernel_quantizer=ws, use_bias=False, name=f"d{idx}_0")(inp)
    return Model(inp, x, name=f"qm{idx}"), meta
  kind = int(rng.integers(0, 3))
  meta = {"kind": ["dense", "conv2d", "conv1d"][kind], "layers": []}

  def wl(make, name, **kw):
    # rotate over the kernel families so that the few models of the quick tier cannot skip one
    kinds = sorted({k for k, _ in WQ})
    WL_COUNT[0] += 1
    kd = kinds[WL_COUNT[0] % len(kinds)]
    k, ws = pick(rng, [w for w in WQ if w[0] == kd])
    bq = pick(rng, BQ)
    arg = "depthwise_quantizer" if make is qkeras.QDepthwiseConv2D else "kernel_quantizer"
    meta["layers"].append((name, make.__name__, ws, bq))
    return make(**kw, **{arg: ws}, bias_quantizer=bq, use_bias=bq is not None, name=name)
  if kind == 0:
    inp = Input((int(rng.integers(2, 10)),), name=f"i{idx}")
    x = wl(qkeras.QDense, f"d{idx}_0", units=int(rng.integers(1, 5)))(inp)
    x = qkeras.QActivation(pick_act(rng), name=f"a{idx}_0")(x)
  elif kind == 1:
    inp = Input((6, 6, int(rng.integers(1, 4))), name=f"i{idx}")
    x = wl(qkeras.QConv2D, f"c{idx}_0", filters=int(rng.integers(1, 4)), kernel_size=int(rng.integers(1, 4)),
           padding=pick(rng, ["valid", "same"]))(inp)
    x = qkeras.QActivation(pick_act(rng), name=f"a{idx}_0")(x)
    if rng.integers(0, 2):
      x = wl(qkeras.QDepthwiseConv2D, f"dw{idx}_1", kernel_size=int(rng.integers(1, 3)))(x)
      x = qkeras.QActivation(pick_act(rng), name=f"a{idx}_1")(x)
    x = L.Flatten(name=f"f{idx}")(x)
  else:
    inp = Input((8, int(rng.integers(1, 4))), name=f"i{idx}")
    x = wl(qkeras.QConv1D, f"c1_{idx}_0", filters=int(rng.integers(1, 4)), kernel_size=int(rng.integers(1, 4)), padding=pick(rng, ["valid", "same"]))(inp)
    x = qkeras.QActivation(pick_act(rng), name=f"a{idx}_0")(x)
    x = L.Flatten(name=f"f{idx}")(x)
  x = wl(qkeras.QDense, f"d{idx}_9", units=int(rng.integers(1, 4)))(x)
  return Model(inp, x, name=f"qm{idx}"), meta


def fld(e, k):
  """layer map entries are dicts (weighted layers) or LayerDataType namedtuples (the rest)"""
  if isinstance(e, dict):
    return e.get(k)
  return getattr(e, k, None)


def fixed_fits(o, vals):
  """values (float array) exactly representable in the qtools fixed-point type o?  returns (ok, first bad value)"""
  sg = int(bool(o.is_signed))
  frac = int(o.bits) - int(o.int_bits) - sg
  mag = int(o.bits) - sg
  lo, hi = (-(2 ** mag) if sg else 0), 2 ** mag - 1
  for v in np.unique(np.asarray(vals, dtype=np.float64)):
    c = Fraction(float(v)) * (Fraction(2) ** frac)
    if c.denominator != 1 or not lo <= c.numerator <= hi:
      return False, float(v)
  return True, None


def one_step_over(o, v):
  """is v exactly one grid step above the largest value of the signed fixed-point type o (code == 2^mag)?"""
  sg = int(bool(o.is_signed))
  frac = int(o.bits) - int(o.int_bits) - sg
  mag = int(o.bits) - sg
  return bool(sg) and Fraction(float(v)) * (Fraction(2) ** frac) == 2 ** mag


def src_grid(sq):
  """(step, lo code, hi code) of a quantized_bits source quantizer object"""
  ub = sq.bits - int(sq.keep_negative)
  step = 2.0 ** (int(sq.integer) - ub)
  lo = (-(2 ** ub) + int(sq.symmetric)) if sq.keep_negative else 0
  return step, lo, 2 ** ub - 1


def main():
  rep = vlib.Report(PROP, "proof")
  from translate import qtoolsops
  gen = qtoolsops.emit(vlib.GEN)
  from translate import layermapgen
  lmgen = layermapgen.emit(vlib.GEN)
  from translate import estgen
  esgen = estgen.emit(vlib.GEN)
  info = vlib.build_obligations(PROP, gen_files=[gen, lmgen, esgen], extra_files=[os.path.join(vlib.COQ, "theories", "Link", "QToolsLink.v"),
                                                                                 os.path.join(vlib.COQ, "theories", "Link", "LayerMapLink.v"),
                                                                                 os.path.join(vlib.COQ, "theories", "Link", "EstLink.v")])
  errs = rep.obligations(info, "coqc -Q coq/theories QV coq/theories/Properties/C18.v")
  for e in errs:
    rep.violation("obligation-" + os.path.basename(e["file"]), "proof obligation no longer checks: " + e["error"][-400:],
                  {"file": e["file"]}, no_input=True)
  rng = np.random.default_rng(vlib.SEED)
  env.install_learning_phase()
  env.set_phase(0)
  import qkeras
  from qkeras.quantizers import get_quantizer
  from qkeras.qtools import run_qtools
  from qkeras import estimate
  from tensorflow.keras import Model
  # the graph builder needs four Keras-2 accessors (known finding); the harness supplies them
  try:
    m0, _ = gen_model(np.random.default_rng(7), 9000)
    run_qtools.QTools(m0, process="horowitz", source_quantizers=[get_quantizer(SRC[0])], is_inference=False, weights_path=None,
                      keras_quantizer="fp32", keras_accumulator="fp32", for_reference=False)
  except Exception as e:  # pylint: disable=broad-except
    rep.finding("C18-qtools-graph-needs-keras2-tensor-accessors", f"QTools(model) raises {type(e).__name__}: {str(e)[:120]} under the pinned Keras 3; "
                "the harness installs pure accessor shims (KerasTensor.ref/get_shape, Layer.output_shape/get_output_at) and runs qtools unmodified", {})
  env.install_keras2_graph_shims()
  import qkeras.utils as U
  co = {}
  U._add_supported_quantized_objects(co)  # pylint: disable=protected-access
  rep.cov["rule"] = ("random functional models (QDense / QConv1D / QConv2D / QDepthwiseConv2D stacks with QActivation between, with and without bias; fixed "
                     "symmetric / asymmetric, po2, binary, ternary, auto_po2 kernels; 5 source quantizers) x weights (random, all-max, all-min, random signs at "
                     "the extremes) x inputs on the source grid (random, all-max, all-min, sign-aligned with the first layer): QTools(model) types vs every "
                     "tensor of the running model (exact dyadic test), the Coq layer model vs the reported types, Coq mem_type on extreme values; "
                     "analyze_accumulator vs the realised maximum. distinct = distinct (model JSON, weight mode)")
  n = 10 if rep.tier == "quick" else 150
  texts, items = [], []
  n_layers = n_ok = n_est = 0
  sample = None
  for i in range(n + len(WQ) + len(PAIRS)):
    try:
      m, meta = gen_model(rng, i, directed=(i - n if i >= n else None))
    except Exception as e:  # pylint: disable=broad-except
      rep.violation(f"build-{i}", f"model construction raised {type(e).__name__}: {str(e)[:300]}", {})
      continue
    sqs = pick(rng, SRC)
    if meta.get("kind") == "act-kernel-pair":
      sqs = "quantized_bits(18,8,1)"       # wide and fine enough to drive a 4-bit po2 activation to both ends of its exponent range
    sq = get_quantizer(sqs)
    step, clo, chi = src_grid(sq)
    wlayers = [l for l in m.layers if type(l).__name__ in ("QDense", "QConv1D", "QConv2D", "QDepthwiseConv2D")]
    subm = Model(m.inputs, [l.output for l in m.layers[1:]])
    names = [l.name for l in m.layers[1:]]
    for wmode in (["random", "all-max", "all-min", "signs", "tiny"] if rep.tier == "thorough" or i % 2 == 0 or i >= n else ["random", "signs"]):
      ws = []
      for w in m.get_weights():
        if wmode == "random":
          ws.append(rng.normal(0, 0.8, size=w.shape).astype(np.float32))
        elif wmode == "all-max":
          ws.append(np.full(w.shape, 100.0, dtype=np.float32))
        elif wmode == "all-min":
          ws.append(np.full(w.shape, -100.0, dtype=np.float32))
        elif wmode == "tiny":
          ws.append((rng.choice([-1e-5, 1e-5], size=w.shape)).astype(np.float32))     # the smallest magnitudes a quantizer can emit
        else:
          ws.append((rng.choice([-100.0, 100.0], size=w.shape)).astype(np.float32))
      m.set_weights(ws)
      rep.count((m.to_json(), wmode, sqs))
      ishape = tuple(m.input_shape[1:])
      k0 = wlayers[0].get_quantizers()[0](tf.constant(wlayers[0].get_weights()[0])).numpy()
      xs = [rng.integers(clo, chi + 1, size=(3,) + ishape).astype(np.float32) * step,
            np.full((1,) + ishape, chi * step, dtype=np.float32), np.full((1,) + ishape, clo * step, dtype=np.float32)]
      if meta.get("kind") == "act-kernel-pair":
        xs.append(np.full((1,) + ishape, step, dtype=np.float32))          # the smallest magnitudes: the low end of the exponent range
        xs.append(np.full((1,) + ishape, 3 * step, dtype=np.float32))
      if type(wlayers[0]).__name__ == "QDense":
        xs.append(np.where(k0[:, 0] >= 0, chi * step, clo * step).astype(np.float32)[None])
        xs.append(np.where(k0[:, 0] >= 0, clo * step, chi * step).astype(np.float32)[None])
      x = tf.constant(np.concatenate(xs, axis=0))
      outs = dict(zip(names, [np.asarray(o) for o in subm(x)]))
      outs[m.layers[0].name] = x.numpy()
      try:
        qt = run_qtools.QTools(m, process="horowitz", source_quantizers=[get_quantizer(sqs)], is_inference=False, weights_path=None,
                               keras_quantizer="fp32", keras_accumulator="fp32", for_reference=False)
      except Exception as e:  # pylint: disable=broad-except
        rep.violation(f"qtools-raises-{i}-{wmode}", f"QTools raised {type(e).__name__}: {str(e)[:300]} on {meta}", {"model": meta})
        continue
      lmap = qt._layer_map["layer_data_type_map"]  # pylint: disable=protected-access
      if sample is None:
        sample = {"model": meta, "source": sqs, "weights": wmode}
      known_bad = {}
      for l in m.layers[1:]:
        e = lmap.get(l)
        if e is None:
          rep.violation(f"no-map-entry-{i}-{l.name}", f"layer {l.name} has no entry in the data type map", {"model": meta})
          continue
        tname = type(l).__name__
        # the tensor entering this layer = output of its (single) producer
        prod = [p for p in m.layers if p.output is l.input]
        xin = outs[prod[0].name] if prod else None
        iq = fld(e, "input_quantizer_list")[0] if fld(e, "input_quantizer_list") else None
        # after a kernel with an auto power-of-two scale the edge carries the UNadjusted accumulator (scale-free codes);
        # the statement names the scale-adjusted entry for those values, which is checked at the producing layer
        after_auto = bool(prod) and hasattr(prod[0], "get_quantizers") and getattr(prod[0].get_quantizers()[0], "alpha", None) == "auto_po2"
        if xin is not None and iq is not None and iq.mode == 0 and not iq.is_floating_point and not after_auto:
          ok, bad = fixed_fits(iq, xin)
          if not ok:
            msg = (f"{l.name}: an input value {bad} does not fit the reported input type "
                   f"(bits {iq.bits}, int_bits {iq.int_bits}, signed {iq.is_signed}); model {meta}, source {sqs}, weights {wmode}")
            if one_step_over(iq, bad) and wmode in ("all-min", "signs"):
              rep.finding("C18-most-negative-times-most-negative-overflows-by-one", msg + " (the producing layer's accumulator, exactly one step above its top)",
                          {"model": meta, "weights": wmode, "source": sqs})
            elif prod and prod[0].name in known_bad:
              # the producer's accumulator was already reported under a known finding: this is the same tensor seen from its consumer
              rep.finding(known_bad[prod[0].name], msg + " (the producing layer's accumulator)", {"model": meta, "weights": wmode, "source": sqs})
            else:
              rep.violation(f"input-type-{i}-{wmode}-{l.name}", msg, {"model": meta, "weights": wmode})
        if tname == "QActivation":
          oq = fld(e, "output_quantizer")
          if oq.mode == 0 and not oq.is_floating_point:
            ok, bad = fixed_fits(oq, outs[l.name])
            if not ok:
              rep.violation(f"activation-type-{i}-{wmode}-{l.name}", f"{l.name} ({l.quantizer}): output {bad} does not fit the reported type "
                            f"(bits {oq.bits}, int_bits {oq.int_bits}, signed {oq.is_signed})", {"model": meta})
          elif oq.mode == 1:
            # power-of-two activation: membership of every emitted value in the reported po2 type, judged by Coq mem_type
            vals = np.unique(outs[l.name])
            texts.append(f"forallb (mem_type {QK.qt_lit(oq)}) [{'; '.join(vlib.ratlit(Fraction(float(v))) for v in vals[:40])}]")
            items.append(("activation", i, wmode, l.name, meta, f"{type(l.quantizer).__name__}(bits={l.quantizer.bits}, max_value={l.quantizer.max_value}, "
                                                                f"negative_slope={getattr(l.quantizer, 'negative_slope', 0)})"))
          continue
        if tname not in ("QDense", "QConv1D", "QConv2D", "QDepthwiseConv2D"):
          continue
        n_layers += 1
        qs = l.get_quantizers()
        wq_t, bq_t = e["weight_quantizer"], e.get("bias_quantizer")
        kq = qs[0](tf.constant(l.get_weights()[0])).numpy()
        auto = getattr(qs[0], "alpha", None) == "auto_po2"
        acc = (e["fused_accumulator"] if auto else e["accumulator"]).output
        mul = e["multiplier"].output
        good = True
        # weights / bias fit their reported types (the auto_po2 scale is accounted for in the fused accumulator, codes judged after unscaling)
        kq_codes = kq / np.asarray(qs[0].scale, dtype=np.float32) if auto else kq
        texts.append(f"forallb (mem_type {QK.qt_lit(wq_t)}) [{'; '.join(vlib.ratlit(Fraction(float(v))) for v in np.unique(kq_codes)[:40])}]")
        items.append(("weight", i, wmode, l.name, meta, str(qs[0])))
        if l.use_bias and bq_t is not None:
          bqv = qs[1](tf.constant(l.get_weights()[1])).numpy() if qs[1] else l.get_weights()[1]
          texts.append(f"forallb (mem_type {QK.qt_lit(bq_t)}) [{'; '.join(vlib.ratlit(Fraction(float(v))) for v in np.unique(bqv)[:40])}]")
          items.append(("bias", i, wmode, l.name, meta, str(qs[1])))
        # every pre-activation value is exactly representable in the reported accumulator
        pre = outs[l.name]
        if acc.is_floating_point:
          continue
        ok, bad = fixed_fits(acc, pre)
        if not ok:
          good = False
          msg = (f"{tname} {l.name} kernel {qs[0]} bias {qs[1] if l.use_bias else None} input type (bits {iq.bits}, int {iq.int_bits}, signed {iq.is_signed}), "
                 f"weights {wmode}: pre-activation value {bad} is not representable in the reported accumulator (bits {acc.bits}, int_bits {acc.int_bits}, "
                 f"signed {acc.is_signed})")
          # most-negative x most-negative: the corner excluded by the multiplier / shifter / mux theorems -- exactly one step above the top
          fid = "C18-most-negative-times-most-negative-overflows-by-one" if (one_step_over(acc, bad) and bool(iq.is_signed) and wmode in ("all-min", "signs")) else None
          # inputs produced by a leaky quantized_relu_po2 are negative although the reported input type is unsigned (known finding)
          pq_ = getattr(prod[0], "quantizer", None) if prod else None
          if fid is None and type(pq_).__name__ == "quantized_relu_po2" and getattr(pq_, "negative_slope", 0) and float(np.min(xin)) < 0:
            fid = "C18-leaky-relu-po2-reported-unsigned"
          # ternary / binary product templates count the sign inside int_bits (int_bits == bits): the accumulator built from them has
          # NEGATIVE fraction bits (C17 known finding C17-accumulator-of-ternary-binary-products seen from the model)
          if fid is None and not getattr(mul, "is_po2", 0) and int(mul.bits) - int(mul.int_bits) - int(bool(mul.is_signed)) < 0:
            fid = "C18-ternary-binary-product-template-negative-fraction-bits"
          # po2 kernel on po2 activations: the Adder multiplier rule under-sizes the exponent range in two operand classes (C16 known findings)
          if fid is None and getattr(iq, "is_po2", 0) and getattr(wq_t, "is_po2", 0):
            capw, capx = 0 < float(wq_t.max_val_po2) <= 1, 0 < float(iq.max_val_po2) <= 1
            if bool(iq.is_signed) != bool(wq_t.is_signed) or capw != capx:
              fid = "C18-po2-kernel-on-po2-activations-adder-rule"
          if fid:
            known_bad[l.name] = fid
            rep.finding(fid, msg, {"model": meta, "weights": wmode, "source": sqs})
          else:
            rep.violation(f"preact-not-representable-{i}-{wmode}-{l.name}", msg, {"model": meta, "weights": wmode, "source": sqs})
        # the Coq layer model computes the same types from (weight type, input type, kernel size, bias type)
        kshape = l.get_weights()[0].shape
        if tname == "QDepthwiseConv2D":
          kshape = kshape[:-2] + (1, 1)
        kops = int(np.prod(kshape[:-1]))
        bl = f"(Some {QK.qt_lit(bq_t)})" if (l.use_bias and bq_t is not None) else "None"
        if auto:
          sc = np.asarray(qs[0].scale, dtype=np.float64).reshape(-1)
          mn_, mx_ = int(np.log2(np.min(sc))), int(np.log2(np.max(sc)))
          texts.append(f"render (layer_fused_acc {QK.qt_lit(wq_t)} {QK.qt_lit(iq)} {kops} {bl} {vlib.zlit(mn_)} {vlib.zlit(mx_)})")
        else:
          texts.append(f"render (layer_acc {QK.qt_lit(wq_t)} {QK.qt_lit(iq)} {kops} {bl})")
        items.append(("acc", i, wmode, l.name, meta, QK.render(acc)))
        texts.append(f"forallb (mem_type {QK.qt_lit(acc)}) [{vlib.ratlit(Fraction(float(np.min(pre))))}; {vlib.ratlit(Fraction(float(np.max(pre))))}]")
        items.append(("preact-extremes", i, wmode, l.name, meta, fixed_fits(acc, [np.min(pre), np.max(pre)])[0]))   # the same two values the Coq side judges
        if good:
          n_ok += 1
      # ---- the weight-based estimator on the quantized weights
      if wmode in ("random", "signs"):
        qm = m
        keep = m.get_weights()
        try:
          for l in wlayers:
            l.set_weights([(q(tf.constant(w)).numpy() if q else w) for q, w in zip(l.get_quantizers(), l.get_weights())])
          ranges = {}
          for l in wlayers:
            prod = [p for p in m.layers if p.output is l.input]
            xin = outs[prod[0].name]
            ranges[l.name] = (float(np.min(xin)), float(np.max(xin)))
          try:
            with tf.keras.utils.custom_object_scope(co):
              sizes = estimate.analyze_accumulator(qm, ranges)
          except Exception as e:  # pylint: disable=broad-except
            if isinstance(e, (OverflowError, ValueError)) and ("infinity" in str(e) or "NaN" in str(e)):
              rep.finding("C18-analyze-accumulator-raises-when-no-channel-has-a-positive-bound",
                          f"analyze_accumulator raised {type(e).__name__}: {str(e)[:100]} on {meta['layers']} with input ranges {ranges}: "
                          "int(ceil(log2(0))) for a layer whose every channel bound is 0", {"model": meta, "ranges": str(ranges)})
            else:
              rep.violation(f"estimator-raises-{i}-{wmode}", f"analyze_accumulator raised {type(e).__name__}: {str(e)[:200]} on {meta['layers']}", {"model": meta})
            sizes = {}
          for l in wlayers:
            if l.name not in sizes:
              rep.violation(f"estimator-skips-{i}-{wmode}-{l.name}", f"analyze_accumulator returned no size for {type(l).__name__} {l.name}", {"model": meta}) if sizes else None
              continue
            n_est += 1
            # realised outputs of this layer over the inputs actually fed (all inside the stated range by construction) ...
            worst = float(np.max(np.abs(outs[l.name])))
            # ... and the sign-aligned vertex of the input box, per output channel (one input vector / interior patch realises it)
            k = l.get_weights()[0].astype(np.float64)
            if type(l).__name__ == "QDepthwiseConv2D":
              k = k.reshape(-1, k.shape[-2] * k.shape[-1])
            else:
              k = k.reshape(-1, k.shape[-1])
            b = l.get_weights()[1].astype(np.float64) if l.use_bias else np.zeros(k.shape[1])
            lo_, hi_ = ranges[l.name]
            up = np.sum(np.where(k > 0, k * hi_, k * lo_), axis=0) + b
            dn = np.sum(np.where(k > 0, k * lo_, k * hi_), axis=0) + b
            full_window = type(l).__name__ == "QDense" or getattr(l, "padding", "valid") == "valid" or True
            if full_window:
              worst = max(worst, float(np.max(np.abs(np.concatenate([up, dn])))))
            if worst > 0 and np.log2(worst) > sizes[l.name] + 1e-9:
              rep.violation(f"estimator-too-small-{i}-{wmode}-{l.name}",
                            f"{type(l).__name__} {l.name} (bias {l.use_bias}) input range {ranges[l.name]}: analyze_accumulator returned {sizes[l.name]} but an input "
                            f"inside the range produces |output| = {worst} (log2 = {np.log2(worst):.4f})", {"model": meta, "weights": wmode})
        finally:
          m.set_weights(keep)
  # ---- directed: the most-negative x most-negative corner excluded by the theorem (C18_most_negative_corner_refuted) on the real code
  try:
    from tensorflow.keras import Input
    i_ = Input((4,), name="corner_in")
    cm = Model(i_, qkeras.QDense(2, kernel_quantizer="quantized_bits(3,0,0,alpha=1.0)", use_bias=False, name="corner_d")(i_))
    cm.set_weights([np.full((4, 2), -100.0, dtype=np.float32)])
    csq = get_quantizer("quantized_bits(3,0,0)")
    cq = run_qtools.QTools(cm, process="horowitz", source_quantizers=[csq], is_inference=False, weights_path=None,
                           keras_quantizer="fp32", keras_accumulator="fp32", for_reference=False)
    cacc = cq._layer_map["layer_data_type_map"][cm.get_layer("corner_d")]["accumulator"].output  # pylint: disable=protected-access
    cy = cm(tf.constant(np.full((1, 4), -1.0, dtype=np.float32))).numpy()
    rep.count(("corner", int(cacc.bits), int(cacc.int_bits)))
    ok, bad = fixed_fits(cacc, cy)
    if not ok:
      rep.finding("C18-most-negative-times-most-negative-overflows-by-one",
                  f"QDense(4 -> 2), kernel quantized_bits(3,0,0) all at the most negative code -1.0, inputs quantized_bits(3,0,0) all -1.0, no bias: pre-activation {bad} "
                  f"is one step above the largest value of the reported accumulator (bits {cacc.bits}, int_bits {cacc.int_bits}, signed {cacc.is_signed})",
                  {"kernel": "quantized_bits(3,0,0,alpha=1.0)", "source": "quantized_bits(3,0,0)", "x": [-1.0] * 4})
  except Exception as e:  # pylint: disable=broad-except
    rep.violation("corner-case-raises", f"directed corner case raised {type(e).__name__}: {str(e)[:200]}", {})
  # ---- Coq evaluation
  SH = 200
  shards = [(f"{PROP}_k_{s // SH:03d}", HEADER + "".join(f"Eval vm_compute in {t}.\n" for t in texts[s:s + SH])) for s in range(0, len(texts), SH)]
  outs_c = {}
  for name, text in shards:
    path = os.path.join(vlib.CASES, name + ".v")
    with open(path, "w") as f:
      f.write(text)
  import re
  import concurrent.futures as cf

  def run(name):
    path = os.path.join(vlib.CASES, name + ".v")
    try:
      out = vlib.coqc(path)
    finally:
      for ext in (".vo", ".vok", ".vos", ".glob", ".v"):
        try:
          os.remove(os.path.join(vlib.CASES, name + ext))
        except OSError:
          pass
      try:
        os.remove(os.path.join(vlib.CASES, "." + name + ".aux"))
      except OSError:
        pass
    res = []
    for chunk in re.split(r"^\s*=\s", out, flags=re.M)[1:]:
      body = chunk.split(":")[0].strip()
      if body in ("true", "false"):
        res.append(body == "true")
      else:
        res.append([int(t) for t in re.findall(r"-?\d+", body.replace("%Z", ""))])
    return res
  with cf.ThreadPoolExecutor(max_workers=16) as ex:
    for name, r in zip([s[0] for s in shards], ex.map(run, [s[0] for s in shards])):
      outs_c[name] = r
  flat = []
  for name, _ in shards:
    flat += outs_c[name]
  n_model_eq = 0
  for it, r in zip(items, flat):
    kind, i, wmode, lname, meta, extra = it
    if kind == "activation":
      if r is not True:
        msg = f"{lname}: an emitted activation value ({extra}) is not a member of the reported activation type"
        if "relu_po2" in extra and not extra.endswith("negative_slope=0)") and not extra.endswith("negative_slope=0.0)"):
          rep.finding("C18-leaky-relu-po2-reported-unsigned", msg, {"model": meta})
        else:
          rep.violation(f"activation-type-{i}-{wmode}-{lname}", msg, {"model": meta})
    elif kind in ("weight", "bias"):
      if r is not True:
        rep.violation(f"{kind}-type-{i}-{wmode}-{lname}", f"{lname}: a quantized {kind} value ({extra}) is not a member of the reported {kind} type", {"model": meta})
    elif kind == "acc":
      if r != extra:
        fid = None
        rep.violation(f"layer-model-mismatch-{i}-{wmode}-{lname}", f"{lname}: reported accumulator {extra} differs from the Coq layer model {r} "
                      "(mode, bits, int_bits, signed, float, po2, max_value num/den, name)", {"model": meta}, no_input=True)
      else:
        n_model_eq += 1
    elif kind == "preact-extremes":
      if r != extra:
        rep.violation(f"membership-disagrees-{i}-{wmode}-{lname}", f"{lname}: Coq mem_type says {r}, the harness test says {extra} for the extreme pre-activation values", {"model": meta}, no_input=True)
  rep.note(models=n, weighted_layers_checked=n_layers, layers_all_values_fit=n_ok, layer_model_equal=n_model_eq, estimator_layers=n_est, coq_queries=len(texts))
  if sample:
    rep.sample(sample)
  rep.assumptions += ["qtools' graph builder reads Keras-2 accessors that Keras 3 dropped; the harness installs them as pure accessors (harness/env.py "
                      "install_keras2_graph_shims); qtools itself runs unmodified",
                      "intermediate tensors come from eager sub-models; values are tested for exact dyadic representability with Python Fractions and, for the "
                      "extremes of every layer, by Coq's mem_type on the same type",
                      "analyze_accumulator is run on weights that are already quantized (the layer computes with quantized weights); the realised maximum is the "
                      "maximum over the fed inputs and, for QDense, the sign-aligned vertex of the stated input box",
                      "QBatchNormalization / folded / recurrent layers do not build under the pinned Keras 3 and are not generated; model.predict is replaced by eager calls"]
  return rep.finish(vlib.TRUSTED_COMMON + ["translators tools/translate/{qtoolsops,layermapgen,estgen}.py regenerate coq/gen/{QToolsOps,LayerMapGen,EstGen}.v (type rules, the dense/conv branch of the layer map, analyze_accumulator); the graph traversal of generate_layer_data_type_map is tied by correspondence",
                                          "model QTools/LayerMap.v (over Ops.v) is hand-written; tie = comparison of every reported layer accumulator with the "
                                          "model's, plus membership of real tensors in the reported types"])


if __name__ == "__main__":
  sys.exit(main())

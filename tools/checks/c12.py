"""C12 -- model_quantize converts exactly what the configuration names and nothing else."""
import copy
import json
import os
import sys

sys.path.insert(0, os.path.dirname(os.path.dirname(os.path.abspath(__file__))))
import vlib  # noqa: E402
from harness import env  # noqa: E402
import numpy as np  # noqa: E402

PROP = "C12"
tf = env.tf
HEADER = ("From Coq Require Import String List Bool.\nFrom QV Require Import Convert.ModelQuantize Convert.Adaptive Convert.Relu.\n"
          "Open Scope string_scope. Import ListNotations.\n")
QSTR = ["quantized_bits(4,0,1)", "quantized_bits(8,2,1)", "quantized_po2(4)", "ternary()", "binary()"]
ASTR = ["quantized_relu(4,2)", "quantized_relu(6)", "quantized_tanh(4)", "quantized_bits(8,3,1)"]


def cs(s):
  return '"' + s.replace('"', '""') + '"'


def copt(o):
  return "None" if o is None else f"(Some {cs(o)})"


def gen_directed(rng, idx):
  """every weighted layer kind once WITH and once WITHOUT a bias, activations of every mapped name, a batch norm, frozen layers"""
  import tensorflow.keras.layers as L
  from tensorflow.keras import Model, Input
  inp = Input((8, 8, 3), name=f"in{idx}")
  x = L.Conv2D(3, 3, padding="same", activation="relu", use_bias=True, name=f"conv2d_{idx}_b")(inp)
  x = L.Conv2D(2, 3, padding="same", activation="tanh", use_bias=False, name=f"conv2d_{idx}_nb")(x)
  x = L.BatchNormalization(name=f"bn_{idx}")(x)
  x = L.DepthwiseConv2D(3, padding="same", activation="sigmoid", use_bias=True, name=f"depthwiseconv2d_{idx}_b")(x)
  x = L.DepthwiseConv2D(3, padding="same", activation=None, use_bias=False, name=f"depthwiseconv2d_{idx}_nb")(x)
  x = L.Activation("relu", name=f"act_{idx}_relu")(x)
  if idx % 4 != 3:
    # Keras ReLU layers: plain, leaky (positive negative_slope) and capped; which key of a QActivation map applies depends on the slope
    x = L.ReLU(name=f"relu_{idx}_plain")(x)
    x = L.ReLU(max_value=6.0, negative_slope=0.125, name=f"relu_{idx}_leaky")(x)
    x = L.ReLU(max_value=4.0, name=f"relu_{idx}_cap")(x)
  x = L.AveragePooling2D(2, name=f"pool_{idx}")(x)
  x = L.Flatten(name=f"flat_{idx}")(x)
  x = L.Dense(4, activation="softmax", use_bias=False, name=f"dense_{idx}_nb")(x)
  x = L.Activation("tanh", name=f"act_{idx}_tanh")(x)
  x = L.Dense(3, activation="relu6", use_bias=True, name=f"dense_{idx}_b")(x)
  m = Model(inp, x, name=f"dm{idx}")
  m.get_layer(f"conv2d_{idx}_nb").trainable = False
  m.set_weights([rng.uniform(0.2, 1.5, size=w.shape).astype("float32") for w in m.get_weights()])
  return m


def gen_directed_dict(rng, model, k):
  """all three parameters for every class; the QActivation entry in rotation: absent, string, per-activation map, empty string"""
  full = lambda wp: {wp: QSTR[k % len(QSTR)], "bias_quantizer": QSTR[(k + 1) % len(QSTR)], "activation_quantizer": ASTR[k % len(ASTR)]}
  d = {"QDense": full("kernel_quantizer"), "QConv2D": full("kernel_quantizer"), "QDepthwiseConv2D": full("depthwise_quantizer"),
       "QAveragePooling2D": {"average_quantizer": QSTR[k % len(QSTR)]}}
  if k % 4 == 1:
    d["QActivation"] = ASTR[k % len(ASTR)]
  elif k % 4 == 2:
    d["QActivation"] = {"relu": "quantized_relu(4,1)", "tanh": "quantized_tanh(6)"}
  elif k % 4 == 3:
    d["QActivation"] = ""
  if k % 4 == 0:
    # no class entry: ReLU layers selected by name only -- a string for the capped one, a map for the leaky one
    d[f"relu_{k}_cap"] = "quantized_relu(5,2)"
    d[f"relu_{k}_leaky"] = {"relu": "quantized_relu(3)", "leakyrelu": "quantized_relu(6,2,negative_slope=0.125)"}
  if k % 4 == 0:
    d["QAdaptiveActivation"] = "quantized_relu(6)"                                   # the only activation entry: the backup applies
  elif k % 4 == 1:
    d["QAdaptiveActivation"] = {"relu": "quantized_relu(5)", "tanh": "quantized_bits(7)"}   # both kinds present: the preference decides
  elif k % 4 == 2:
    d["QAdaptiveActivation"] = "quantized_bits(8)"
  if k % 2:
    del d["QDense"]["activation_quantizer"]        # fall back to quantize_activation(activation_bits)
    d["QConv2D"]["activation_quantizer"] = ""
  return d


def gen_model(rng, idx):
  import tensorflow.keras.layers as L
  from tensorflow.keras import Model, Input
  acts = [None, "relu", "tanh", "sigmoid", "softmax", "linear", "relu6", "hard_sigmoid", "elu", "softplus"]   # names that CONTAIN relu / sigmoid must stay untouched
  functional = bool(rng.integers(0, 2))
  inp = Input((8, 8, 3), name=f"in{idx}")
  x = inp
  info = []
  nconv = int(rng.integers(1, 4))
  for j in range(nconv):
    kind = ["Conv2D", "DepthwiseConv2D", "SeparableConv2D", "Conv2D"][int(rng.integers(0, 4))]
    act = acts[int(rng.integers(0, len(acts)))]
    ub = bool(rng.integers(0, 2))
    name = f"{kind.lower()}_{idx}_{j}"
    if kind == "Conv2D":
      x = L.Conv2D(int(rng.integers(1, 5)), 3, padding="same", activation=act, use_bias=ub, name=name)(x)
    elif kind == "DepthwiseConv2D":
      x = L.DepthwiseConv2D(3, padding="same", activation=act, use_bias=ub, name=name)(x)
    else:
      x = L.SeparableConv2D(int(rng.integers(1, 5)), 3, padding="same", activation=act, use_bias=ub, name=name)(x)
    if rng.integers(0, 3) == 0:
      x = L.BatchNormalization(name=f"bn_{idx}_{j}")(x)        # non-trainable state (moving statistics) that a weight transfer must carry too
    if rng.integers(0, 2):
      a2 = ["relu", "tanh", "sigmoid", "softmax"][int(rng.integers(0, 4))]
      x = L.Activation(a2, name=f"act_{idx}_{j}")(x)
    rk = (idx + j) % 4      # in rotation: no ReLU layer, plain, leaky, capped
    if rk == 1:
      x = L.ReLU(name=f"relu_{idx}_{j}")(x)
    elif rk == 2:
      x = L.ReLU(negative_slope=float(rng.choice([0.0625, 0.25, 0.5])), name=f"relu_{idx}_{j}")(x)
    elif rk == 3:
      x = L.ReLU(max_value=float(rng.choice([1.0, 6.0])), threshold=float(rng.choice([0.0, 0.5])), name=f"relu_{idx}_{j}")(x)
  if functional:
    b1 = L.Conv2D(2, 1, padding="same", name=f"branch_a_{idx}")(x)
    b2 = L.Conv2D(2, 1, padding="same", activation="relu", name=f"branch_b_{idx}")(x)
    x = L.Add(name=f"add_{idx}")([b1, b2])
  if rng.integers(0, 2):
    x = L.AveragePooling2D(2, name=f"pool_{idx}")(x)
  x = L.GlobalAveragePooling2D(name=f"gap_{idx}")(x) if rng.integers(0, 2) else L.Flatten(name=f"flat_{idx}")(x)
  nd = int(rng.integers(1, 3))
  for j in range(nd):
    act = acts[int(rng.integers(0, len(acts)))]
    x = L.Dense(int(rng.integers(1, 6)), activation=act, use_bias=bool(rng.integers(0, 2)), name=f"dense_{idx}_{j}")(x)
  m = Model(inp, x, name=f"m{idx}")
  # a trained model: no weight sits at its initial value, some layers are frozen
  for l in m.layers:
    if l.get_weights() and rng.integers(0, 4) == 0:
      l.trainable = False
  m.set_weights([rng.uniform(0.2, 1.5, size=w.shape).astype("float32") * rng.choice([-1.0, 1.0], size=w.shape).astype("float32")
                 if "variance" not in getattr(v, "path", getattr(v, "name", "")) else rng.uniform(0.2, 1.5, size=w.shape).astype("float32")
                 for v, w in zip(m.weights, m.get_weights())])
  return m


def gen_dict(rng, model):
  d = {}
  classes = ["QDense", "QConv2D", "QDepthwiseConv2D", "QSeparableConv2D", "QAveragePooling2D", "QGlobalAveragePooling2D"]
  wparam = {"QDense": "kernel_quantizer", "QConv2D": "kernel_quantizer", "QSeparableConv2D": "kernel_quantizer",
            "QDepthwiseConv2D": "depthwise_quantizer", "QAveragePooling2D": "average_quantizer", "QGlobalAveragePooling2D": "average_quantizer"}

  def entry(cls):
    e = {}
    if rng.integers(0, 5) > 0:
      e[wparam[cls]] = QSTR[int(rng.integers(0, len(QSTR)))]
    if rng.integers(0, 2):
      e["bias_quantizer"] = QSTR[int(rng.integers(0, len(QSTR)))]
    if rng.integers(0, 3) == 0:
      e["activation_quantizer"] = ASTR[int(rng.integers(0, len(ASTR)))]
    return e
  for cls in classes:
    if rng.integers(0, 2):
      d[cls] = entry(cls)
  for l in model.layers:
    cn = "Q" + type(l).__name__
    if cn in wparam and rng.integers(0, 4) == 0:
      d[l.name] = entry(cn)
  r = rng.integers(0, 5)
  if r == 1:
    d["QActivation"] = ASTR[int(rng.integers(0, len(ASTR)))]
  elif r == 2:
    d["QActivation"] = {"relu": "quantized_relu(4,1)", "tanh": "quantized_tanh(6)"}
  elif r == 3:
    d["QActivation"] = {"relu": "quantized_relu(4,1)", "leakyrelu": "quantized_relu(5,1,negative_slope=0.25)", "sigmoid": ""}
  for l in model.layers:
    if type(l).__name__ == "Activation" and rng.integers(0, 5) == 0:
      d[l.name] = ASTR[int(rng.integers(0, len(ASTR)))]
    if type(l).__name__ == "ReLU" and rng.integers(0, 3) == 0:
      d[l.name] = [ASTR[int(rng.integers(0, 2))], {"leakyrelu": "quantized_relu(6,negative_slope=0.5)"}, {"relu": "quantized_relu(3,1)"}][int(rng.integers(0, 3))]
  r2 = rng.integers(0, 4)
  if r2 == 1:
    d["QAdaptiveActivation"] = ["quantized_relu(6)", "quantized_bits(8)"][int(rng.integers(0, 2))]
  elif r2 == 2:
    d["QAdaptiveActivation"] = {"relu": "quantized_relu(5)", "tanh": "quantized_bits(6)"}
  return d


def coq_dict(d):
  ents = []
  for k, v in d.items():
    if isinstance(v, str):
      e = f"[({cs('')}, {cs(v)})]"
    else:
      e = "[" + "; ".join(f"({cs(p)}, {cs(q)})" for p, q in v.items()) + "]"
    ents.append(f"({cs(k)}, {e})")
  return "[" + "; ".join(ents) + "]"


def layer_rec(cfg):
  """(class, name, use_bias, activation, kq, bq) of a layer entry of the model JSON"""
  c = cfg["config"]
  cls = cfg["class_name"]
  kq = c.get("kernel_quantizer", c.get("depthwise_quantizer", c.get("average_quantizer")))
  act = c.get("activation")
  if isinstance(act, dict):
    act = json.dumps(act, sort_keys=True)
  if cls == "ReLU":
    # the key of a QActivation map that applies to a Keras ReLU layer: decided by the sign of its slope (independent of utils.py)
    act = "leakyrelu" if float(c.get("negative_slope") or 0.0) > 0 else "relu"
  return cls, c["name"], bool(c.get("use_bias", False)), act, kq, c.get("bias_quantizer")


def main():
  rep = vlib.Report(PROP, "proof")
  from translate import convertgen
  gen = convertgen.emit(vlib.GEN)
  from translate import relugen
  rgen = relugen.emit(vlib.GEN)
  info = vlib.build_obligations(PROP, gen_files=[gen, rgen], extra_files=[os.path.join(vlib.COQ, "theories", "Link", "ConvertLink.v"),
                                                                         os.path.join(vlib.COQ, "theories", "Link", "ReluLink.v")])
  errs = rep.obligations(info, "python3 tools/translate/convertgen.py coq/gen && coqc coq/gen/ConvertGen.v && coqc coq/theories/Link/ConvertLink.v && coqc coq/theories/Properties/C12.v")
  for e in errs:
    rep.violation("obligation-" + os.path.basename(e["file"]), "proof obligation no longer checks: " + e["error"][-400:],
                  {"file": e["file"]}, no_input=True)
  import qkeras
  import qkeras.utils as U
  rng = np.random.default_rng(vlib.SEED)
  rep.cov["rule"] = ("random sequential / branched Keras models (Conv2D, DepthwiseConv2D, SeparableConv2D, Dense, Activation, pooling, "
                     "Flatten, Add, Keras ReLU layers plain / leaky / capped) x random quantization dictionaries (per class, per layer name, partial entries, QActivation string or "
                     "per-activation map) x activation_bits x transfer_weights; the JSON model_quantize hands to the loader is compared "
                     "layer by layer with the Coq function; names, shapes, weights, source model and caller dictionaries are compared "
                     "before/after. distinct = distinct (model, dictionary)")
  captured = {}
  orig = U.quantized_model_from_json

  def spy(json_string, custom_objects=None):
    captured["json"] = json_string
    return orig(json_string, custom_objects)
  U.quantized_model_from_json = spy
  n = 30 if rep.tier == "quick" else 600
  texts, items = [], []
  n_models = 0
  n_rejected = [0]
  for i in range(n):
    directed = i < 4 or (rep.tier != "quick" and i % 25 == 0)
    try:
      model = gen_directed(rng, i) if directed else gen_model(rng, i)
    except Exception as e:  # pylint: disable=broad-except
      continue
    d = gen_directed_dict(rng, model, i) if directed else gen_dict(rng, model)
    bits = int(rng.integers(2, 9))
    tw = bool(i % 2) if directed else bool(rng.integers(0, 2))
    prefer = bool((i // 2) % 2) if directed else bool(rng.integers(0, 3) == 0)
    d0 = copy.deepcopy(d)
    cfg0 = json.loads(model.to_json())
    w0 = [w.copy() for w in model.get_weights()]
    rep.count((json.dumps(cfg0["config"]["layers"], sort_keys=True)[:2000], json.dumps(d, sort_keys=True), bits, tw, prefer))
    try:
      qmodel = U.model_quantize(model, d, bits, transfer_weights=tw, prefer_qadaptiveactivation=prefer)
    except Exception as e:  # pylint: disable=broad-except
      has_sep = any(type(l).__name__ == "SeparableConv2D" for l in model.layers)
      selected_sep = has_sep and any(("QSeparableConv2D" in d and "kernel_quantizer" in d["QSeparableConv2D"]) or
                                     (l.name in d and "kernel_quantizer" in d[l.name]) for l in model.layers if type(l).__name__ == "SeparableConv2D")
      if selected_sep and "kernel_quantizer" in str(e):
        rep.finding("C12-separable-conv-gets-kernel-quantizer-argument",
                    f"model_quantize on a model with a selected SeparableConv2D raises {type(e).__name__}: {str(e)[:160]}", {"dict": d})
      elif any(type(l).__name__ == "ReLU" and isinstance(d.get(l.name, d.get("QActivation")), str) and d.get(l.name, d.get("QActivation")) == "" for l in model.layers):
        rep.finding("C12-relu-layer-empty-qactivation-entry", f"model_quantize with an empty-string QActivation entry applying to a Keras ReLU layer raises {type(e).__name__}: "
                    f"the layer is rewritten to a QActivation without an activation ({str(e)[:120]})", {"dict": d})
      elif (isinstance(e, AssertionError) and "Only integer bits" in str(e)) or "Activation quantizer may NOT contain any parameters" in str(e):
        # the configuration is REJECTED by model_quantize (an adaptive entry with parameters): not a violation; the Coq model
        # must predict the rejection for this (dictionary, preference, model)
        lits_ = []
        for a in cfg0["config"]["layers"]:
          cls_, name_, ub_, act_, _, _ = layer_rec(a)
          lits_.append(f"(L {cs(cls_)} {cs(name_)} {vlib.blit(ub_)} {copt(act_)} None None)")
        texts.append(f"(if model_rejected_all {vlib.blit(prefer)} {coq_dict(d)} [" + "; ".join(lits_) + "] then [\"REJECTED\"] else [\"accepted\"])")
        items.append((i, d, bits, "REJECTED", [a["config"]["name"] for a in cfg0["config"]["layers"]]))
        n_rejected[0] += 1
      else:
        rep.violation(f"model-quantize-raises-{i}", f"model_quantize raised {type(e).__name__}: {str(e)[:300]} ... {str(e)[-700:]}", {"dict": d, "layers": [l.name for l in model.layers]})
      continue
    n_models += 1
    # source model and caller's dictionary untouched
    if d != d0:
      rep.violation(f"dict-modified-{i}", "model_quantize modified the caller's quantization dictionary", {"before": d0, "after": d})
    if json.loads(model.to_json()) != cfg0 or any(not np.array_equal(a, b) for a, b in zip(model.get_weights(), w0)):
      rep.violation(f"source-modified-{i}", "model_quantize modified the source model", {"model": model.name})
    qcfg = json.loads(captured["json"])
    src_layers = cfg0["config"]["layers"]
    q_layers = qcfg["config"]["layers"]
    if len(src_layers) != len(q_layers):
      rep.violation(f"layer-count-{i}", "number of layers changed", {"model": model.name})
      continue
    # topology: inbound nodes untouched
    for a, b in zip(src_layers, q_layers):
      if a.get("inbound_nodes") != b.get("inbound_nodes") or a["config"]["name"] != b["config"]["name"]:
        rep.violation(f"topology-{i}", f"layer {a['config']['name']}: name or connectivity changed", {"model": model.name})
    # output shapes and weight transfer on the constructed model
    for la, lb in zip(model.layers, qmodel.layers):
      if la.name != lb.name or tuple(la.output.shape) != tuple(lb.output.shape):
        rep.violation(f"shape-{i}-{la.name}", f"layer {la.name}: name/output shape differs in the quantized model", {"model": model.name})
      if tw and la.get_weights():
        if any(not np.array_equal(x, y) for x, y in zip(la.get_weights(), lb.get_weights())):
          rep.violation(f"weights-{i}-{la.name}", f"layer {la.name}: weights were not transferred", {"model": model.name})
    # non-quantization hyper-parameters untouched
    for a, b in zip(src_layers, q_layers):
      ka = {k: v for k, v in a["config"].items() if k not in ("activation",)}
      if a["class_name"] == "ReLU" and b["class_name"] == "QActivation":
        ka = {k: v for k, v in ka.items() if k not in ("max_value", "negative_slope", "threshold")}   # a quantized relu carries its own bound / slope
      kb = {k: v for k, v in b["config"].items() if k not in ("activation", "kernel_quantizer", "bias_quantizer", "depthwise_quantizer", "average_quantizer", "total_bits")}
      if ka != kb:
        rep.violation(f"hyperparams-{i}-{a['config']['name']}", f"layer {a['config']['name']}: non-quantization hyper-parameters changed", {"before": ka, "after": kb})
    lits = []
    for a in src_layers:
      cls, name, ub, act, kq, bq = layer_rec(a)
      lits.append(f"(L {cs(cls)} {cs(name)} {vlib.blit(ub)} {copt(act)} None None)")
    want = [layer_rec(b) + (str(b["config"].get("total_bits", "")),) for b in q_layers]
    texts.append(f"(if model_rejected_all {vlib.blit(prefer)} {coq_dict(d)} [" + "; ".join(lits) + f"] then [\"REJECTED\"] else render_model_all {vlib.blit(prefer)} {coq_dict(d)} {cs(str(bits))} [" + "; ".join(lits) + "])")
    items.append((i, d, bits, want, [a["config"]["name"] for a in src_layers]))
  U.quantized_model_from_json = orig
  # Coq prediction, compared as strings
  if texts:
    body = HEADER + "".join(f"Eval vm_compute in {t}.\n" for t in texts)
    path = os.path.join(vlib.CASES, PROP + "_k.v")
    open(path, "w").write(body)
    out = vlib.coqc(path)
    for ext in (".v", ".vo", ".vok", ".vos", ".glob"):
      try:
        os.remove(path[:-2] + ext)
      except OSError:
        pass
    import re
    blocks = re.split(r"^\s*=\s", out, flags=re.M)[1:]
    for (i, d, bits, want, names), blk in zip(items, blocks):
      got = re.findall(r'"((?:[^"]|"")*)"', blk.split(": list")[0])
      got = [g.replace('""', '"') for g in got]
      exp = ["REJECTED"] if want == "REJECTED" else ["|".join([w[0], w[1], "<none>" if w[3] is None else w[3], "<none>" if w[4] is None else w[4], "<none>" if w[5] is None else w[5], w[6]]) for w in want]
      if got != exp:
        j = next((k for k, (a, b) in enumerate(zip(got, exp)) if a != b), 0)
        rep.violation(f"conversion-differs-{i}", f"layer {names[j] if j < len(names) else '?'}: model_quantize produced [{exp[j] if j < len(exp) else None}] "
                      f"but the Coq model gives [{got[j] if j < len(got) else None}]", {"dict": d, "activation_bits": bits})
  rep.note(models_converted=n_models, compared_with_model=len(items),
           adaptive_activation_conversions=sum(1 for it in items if it[3] != "REJECTED" for w in it[3] if w[0] == "QAdaptiveActivation"),
           qactivation_conversions=sum(1 for it in items if it[3] != "REJECTED" for w in it[3] if w[0] == "QActivation"),
           configurations_rejected_by_assertion=n_rejected[0])
  if items:
    rep.sample({"dictionary": items[0][1], "activation_bits": items[0][2], "converted_layers": items[0][3][:4]})
  # LeakyReLU conversion (known finding under the pinned Keras)
  try:
    import tensorflow.keras.layers as L
    from tensorflow.keras import Sequential, Input
    m = Sequential([Input((4,)), L.Dense(3, name="d_lr"), L.LeakyReLU(name="lr")])
    U.model_quantize(m, {"QDense": {"kernel_quantizer": "quantized_bits(4,0,1)"}, "QActivation": {"leakyrelu": "quantized_relu(4,negative_slope=0.25)"}}, 4)
  except KeyError as e:
    rep.finding("C12-leakyrelu-conversion-keyerror", f"model_quantize on a model with LeakyReLU raises KeyError {e}", {})
  except Exception as e:  # pylint: disable=broad-except
    rep.violation("leakyrelu-conversion", f"LeakyReLU conversion raised {type(e).__name__}: {str(e)[:200]}", {})
  rep.assumptions += ["Keras model (re)construction from JSON is runtime behaviour: the comparison is on the JSON that model_quantize hands to "
                      "quantized_model_from_json (captured by the harness) and on names / output shapes / weights of the constructed model",
                      "recurrent, Bidirectional, BatchNormalization and folded layers are not generated (they do not build under the pinned Keras 3)"]
  return rep.finish(vlib.TRUSTED_COMMON + ["translators tools/translate/{convertgen,relugen}.py regenerate coq/gen/{ConvertGen,ReluGen}.v (helpers and the ReLU-layer branch of model_quantize); Link/{ConvertLink,ReluLink}.v prove them equal to the model; the other branches of model_quantize are tied by correspondence",
                                          "model Convert/ModelQuantize.v is hand-written; tie = comparison of the rewritten layer configs on every generated (model, dictionary)"])


if __name__ == "__main__":
  sys.exit(main())

"""C05 -- auto-scaled fixed-point output = in-range integer codes times the recorded scale."""
import itertools
import os
import sys

sys.path.insert(0, os.path.dirname(os.path.dirname(os.path.abspath(__file__))))
import vlib  # noqa: E402
from harness import env  # noqa: E402
import numpy as np  # noqa: E402

PROP = "C05"
tf = env.tf
HEADER = ("From Coq Require Import ZArith List Bool.\n"
          "From QV Require Import Base.ZQ Base.FL Quant.Po2 Quant.BinTern Quant.AutoScale.\n"
          "Open Scope Z_scope. Import ListNotations.\n")


def tensors(rng, tier):
  out = []
  for sh in [(6,), (4, 3), (3, 4, 2), (2, 3, 2, 4), (8, 4)]:
    out.append(("normal", rng.normal(0, 1, size=sh)))
    out.append(("tiny", rng.normal(0, 1e-5, size=sh)))
    out.append(("huge", rng.normal(0, 1e5, size=sh)))
    z = rng.normal(0, 1, size=sh)
    if len(sh) > 1:
      z[..., 0] = 0.0
    else:
      z[0] = 0.0
    out.append(("zero-channel", z))
    out.append(("mixed", rng.normal(0, 1, size=sh) * 2.0 ** rng.integers(-6, 6, size=sh)))
  out.append(("all-zero", np.zeros((3, 2))))
  if tier == "quick":
    idx = rng.choice(len(out), size=12, replace=False)
    out = [out[i] for i in sorted(idx)]
  return [(k, np.asarray(v, dtype=np.float32)) for k, v in out]


def configs(tier, rng):
  cfgs = []
  for bits, integer, alpha in itertools.product([2, 3, 4, 6, 8], [0, 1, 3], ["auto", "auto_po2"]):
    cfgs.append(dict(fam="qbits", bits=bits, integer=integer, alpha=alpha, scale_axis=None, eps=None, emin=None, emax=None, pts=None))
  cfgs += [dict(fam="qbits", bits=4, integer=0, alpha="auto", scale_axis=0, eps=None, emin=None, emax=None, pts=None),
           dict(fam="qbits", bits=4, integer=1, alpha="auto_po2", scale_axis=0, eps=None, emin=None, emax=None, pts=None),
           dict(fam="qbits", bits=4, integer=0, alpha="auto_po2", scale_axis=1, eps=2, emin=None, emax=None, pts=None),
           dict(fam="qbits", bits=6, integer=1, alpha="auto_po2", scale_axis=0, eps=2, emin=None, emax=None, pts=None),
           dict(fam="qbits", bits=6, integer=0, alpha="auto_po2", scale_axis=None, eps=None, emin=-3, emax=-1, pts=None),
           dict(fam="qbits", bits=4, integer=0, alpha="auto_po2", scale_axis=None, eps=None, emin=0, emax=None, pts=None),
           dict(fam="qbits", bits=4, integer=0, alpha="auto_po2", scale_axis=None, eps=None, emin=None, emax=0, pts=None),
           dict(fam="qbits", bits=6, integer=1, alpha="auto_po2", scale_axis=None, eps=None, emin=0, emax=0, pts=None),
           dict(fam="qbits", bits=4, integer=0, alpha="auto_po2", scale_axis=None, eps=None, emin=-2, emax=None, pts=None),
           dict(fam="qbits", bits=8, integer=0, alpha="auto_po2", scale_axis=None, eps=None, emin=None, emax=2, pts=None),
           dict(fam="qbits", bits=4, integer=0, alpha="auto_po2", scale_axis=None, eps=None, emin=None, emax=None, pts=0.5),
           dict(fam="qbits", bits=8, integer=2, alpha="auto", scale_axis=None, eps=None, emin=None, emax=None, pts=0.25)]
  for bits, integer, alpha, kn, sym in itertools.product([2, 4, 8], [0, 2], ["auto", "auto_po2"], [1, 0], [1, 0]):
    cfgs.append(dict(fam="qlin", bits=bits, integer=integer, alpha=alpha, kn=kn, sym=sym))
  # quantized_linear with an explicit scale axis (one scale per slice of THAT axis)
  for bits, alpha, ax in itertools.product([4, 6], ["auto", "auto_po2"], [0, 1]):
    cfgs.append(dict(fam="qlin", bits=bits, integer=0, alpha=alpha, kn=1, sym=1, scale_axis=ax))
  if tier == "quick":
    # every configuration with a non-default option (exponent bounds, blocks, scale axis, frozen scale) is always kept
    must = [i for i, c in enumerate(cfgs) if c.get("emin") is not None or c.get("emax") is not None or c.get("eps") or c.get("pts") is not None
            or c.get("scale_axis") is not None]
    rest = [i for i in range(len(cfgs)) if i not in must]
    idx = list(rng.choice(rest, size=22, replace=False)) + must
    cfgs = [cfgs[i] for i in sorted(idx)]
  return cfgs


def desc(c):
  return ", ".join(f"{k}={v}" for k, v in c.items() if v is not None)


def build(c):
  import qkeras.quantizers as Q
  if c["fam"] == "qbits":
    pts = None if c["pts"] is None else np.array([c["pts"]], dtype=np.float32)
    return Q.quantized_bits(c["bits"], c["integer"], 1, alpha=c["alpha"], scale_axis=c["scale_axis"], elements_per_scale=c["eps"],
                            min_po2_exponent=c["emin"], max_po2_exponent=c["emax"], post_training_scale=pts)
  return Q.quantized_linear(c["bits"], c["integer"], c["sym"], keep_negative=bool(c["kn"]), alpha=c["alpha"], scale_axis=c.get("scale_axis"))


def opt(v):
  return "None" if v is None else f"(Some {vlib.zlit(v)})"


def main():
  rep = vlib.Report(PROP, "proof")
  from translate import lingen
  lgen = lingen.emit(vlib.GEN)
  LK = os.path.join(vlib.COQ, "theories", "Link")
  info = vlib.build_obligations(PROP, gen_files=[lgen], extra_files=[os.path.join(LK, "LinLink.v"), os.path.join(LK, "LinAutoLink.v")])
  errs = rep.obligations(info, "python3 tools/translate/lingen.py coq/gen && coqc coq/gen/LinGen.v && coqc coq/theories/Link/LinLink.v coq/theories/Link/LinAutoLink.v && coqc coq/theories/Properties/C05.v")
  for e in errs:
    rep.violation("obligation-" + os.path.basename(e["file"]), "proof obligation no longer checks: " + e["error"][-400:],
                  {"file": e["file"]}, no_input=True)
  rng = np.random.default_rng(vlib.SEED)
  rep.cov["rule"] = ("quantized_bits (bits 2..8, integer 0..3, alpha 'auto' / 'auto_po2', scale_axis, elements_per_scale, exponent bounds, "
                     "post_training_scale) and quantized_linear ('auto' / 'auto_po2', keep_negative, symmetric) x tensors of rank 1..4 "
                     "(normal, 1e-5, 1e5, zero channels, mixed magnitudes, all zero); every group of elements sharing one exposed scale is "
                     "sent to the Coq checker; plus power-of-two equivariance of 'auto' on the implementation. "
                     "distinct = distinct (config, tensor kind, shape, group)")
  texts, items = [], []
  n_eq = 0
  for c in configs(rep.tier, rng):
    tl = tensors(rng, rep.tier)
    if c.get("eps"):
      # directed: blocks of very different magnitude along the scale axis (a wrongly laid out scale cannot go unnoticed)
      ax, e = c["scale_axis"], c["eps"]
      mags = np.repeat(np.array([1.0, 8.0, 0.05, 64.0]), e)
      shp = [4, 4]
      shp[ax] = mags.size
      g = rng.normal(0, 1, size=shp)
      g = g * (mags.reshape(-1, 1) if ax == 0 else mags.reshape(1, -1))
      tl = [("block-magnitudes", np.asarray(g, dtype=np.float32))] + tl
    for kind, x in tl:
      if c.get("scale_axis") is not None and (x.ndim < 2 or x.ndim <= c["scale_axis"]):
        continue
      if c.get("eps") and (x.ndim < 2 or x.shape[c["scale_axis"]] % c["eps"]):
        continue
      q = build(c)
      try:
        y = q(tf.constant(x)).numpy()
      except Exception as e:  # pylint: disable=broad-except
        rep.violation(f"raises-{desc(c)}-{kind}-{x.shape}", f"{desc(c)} on a {kind} tensor {x.shape} raised {type(e).__name__}: {str(e)[:200]}", {"config": c})
        continue
      if not np.all(np.isfinite(y)):
        i = int(np.where(~np.isfinite(y.reshape(-1)))[0][0])
        rep.violation(f"non-finite-{desc(c)}-{kind}-{x.shape}", f"{desc(c)} on a {kind} tensor {x.shape}: non-finite output", {"config": c, "x_bits": env.f2b(x)})
        continue
      sc_raw = np.asarray(q.scale if c["fam"] == "qbits" else q.quantization_scale, dtype=np.float32)
      # one scale per output channel (documented shape), unless blocks / a frozen scalar are configured
      if x.ndim >= 2 and (c["fam"] == "qbits" and c["pts"] is None and not c.get("eps") or c["fam"] == "qlin") and sc_raw.ndim == x.ndim:
        ax = x.ndim - 1 if c.get("scale_axis") is None else c["scale_axis"]
        want = tuple(x.shape[i] if i == ax else 1 for i in range(x.ndim))
        if tuple(sc_raw.shape) != want:
          rep.violation(f"scale-shape-{desc(c)}-{x.shape}", f"{desc(c)}: exposed scale has shape {sc_raw.shape}, expected one value per channel {want}", {"config": c})
      if c.get("eps") and c["fam"] == "qbits":
        # configured groups: blocks of `elements_per_scale` consecutive entries along scale_axis share ONE scale, and a block is
        # quantized inside the tensor exactly as it is alone (its scale depends on its own entries only)
        ax, e = c["scale_axis"], c["eps"]
        scb = np.broadcast_to(sc_raw, x.shape) if sc_raw.ndim == x.ndim else None
        if scb is None or tuple(sc_raw.shape) not in (tuple(x.shape[i] if i == ax else 1 for i in range(x.ndim)),
                                                      tuple(x.shape[i] // e if i == ax else 1 for i in range(x.ndim))):
          rep.violation(f"group-scale-shape-{desc(c)}-{x.shape}", f"{desc(c)}: exposed scale has shape {sc_raw.shape} for input {x.shape}", {"config": c})
        else:
          blocks = np.moveaxis(scb, ax, 0).reshape(x.shape[ax] // e, e, -1)
          if not np.all(blocks == blocks[:, :1, :]):
            rep.violation(f"group-scale-not-shared-{desc(c)}-{kind}-{x.shape}", f"{desc(c)} on a {kind} tensor {x.shape}: entries of one block of {e} along axis {ax} "
                          f"carry different scales {np.moveaxis(scb, ax, 0).reshape(x.shape[ax], -1)[:, 0].tolist()}", {"config": c, "x_bits": env.f2b(x)})
          for b in range(x.shape[ax] // e):
            sl = [slice(None)] * x.ndim
            sl[ax] = slice(b * e, (b + 1) * e)
            yb_alone = build(c)(tf.constant(x[tuple(sl)])).numpy()
            if env.f2b(yb_alone) != env.f2b(y[tuple(sl)]):
              rep.violation(f"group-context-{desc(c)}-{kind}-{x.shape}-{b}", f"{desc(c)} on a {kind} tensor {x.shape}: block {b} along axis {ax} is quantized differently "
                            "inside the tensor than alone (its scale depends on other groups)", {"config": c, "x_bits": env.f2b(x), "block": b})
              break
      sc = np.broadcast_to(sc_raw, x.shape)
      # groups = elements sharing one entry of the exposed scale
      sidx = np.broadcast_to(np.arange(sc_raw.size).reshape(sc_raw.shape), x.shape) if sc_raw.size > 1 else np.zeros(x.shape, dtype=int)
      for g in np.unique(sidx):
        m = sidx == g
        xs, ys, s0 = x[m], y[m], sc[m][0]
        rep.count((desc(c), kind, x.shape, int(g)))
        mode = {"auto": 1, "auto_po2": 2}[c["alpha"]]
        if c["fam"] == "qbits":
          if c["pts"] is not None:
            mode = 3
          texts.append(f"chk_qba_group {mode} {c['bits']} {c['integer']} {opt(c['emin'])} {opt(c['emax'])} "
                       f"{vlib.zlist(env.f2b(xs))} {vlib.zlist(env.f2b(ys))} {env.f2b([s0])[0]}")
        else:
          if c["bits"] == 1 and c["kn"]:
            continue
          ub = c["bits"] - c["kn"]
          lo, hi = c["kn"] * (-(2 ** ub) + c["sym"]), 2 ** ub - 1
          texts.append(f"chk_qla_group {mode} {vlib.zlit(lo)} {hi} {vlib.blit(c['kn'])} {vlib.zlist(env.f2b(xs))} {vlib.zlist(env.f2b(ys))} {env.f2b([s0])[0]}")
        items.append((c, kind, x.shape, int(g), env.f2b(xs), env.f2b(ys), float(s0)))
      # equivariance under powers of two ('auto': exact float32 scaling)
      if c["alpha"] == "auto" and kind in ("normal", "mixed") and c.get("pts") is None:
        for k in (-3, 2, 5):
          q2 = build(c)
          y2 = q2(tf.constant(x * np.float32(2.0 ** k))).numpy()
          n_eq += x.size
          if env.f2b(y2) != env.f2b(y * np.float32(2.0 ** k)):
            i = int(np.where(np.asarray(env.f2b(y2)) != np.asarray(env.f2b(y * np.float32(2.0 ** k))))[0][0])
            rep.violation(f"not-equivariant-{desc(c)}-{kind}-{x.shape}", f"{desc(c)}: q(2^{k} x) != 2^{k} q(x) at element {i}: {y2.reshape(-1)[i]} vs {(y * 2.0 ** k).reshape(-1)[i]}",
                          {"config": c, "k": k, "x_bits": env.f2b(x)})
  SH = 300
  shards = [(f"{PROP}_k_{s // SH:03d}", HEADER + "".join(f"Eval vm_compute in {t}.\n" for t in texts[s:s + SH])) for s in range(0, len(texts), SH)]
  outs = vlib.coq_eval_many(shards)
  n_ok = 0
  for s in range(0, len(texts), SH):
    for (c, kind, shape, g, xb, yb, s0), l in zip(items[s:s + SH], outs[f"{PROP}_k_{s // SH:03d}"]):
      bad, pos, rel = l
      if bad == 0 and pos == 0 and rel == 0:
        n_ok += 1
        continue
      allzero = all(v == 0.0 for v in env.b2f(xb))
      if bad == 0 and rel == 0 and pos == 1 and allzero and c["fam"] == "qbits" and c["alpha"] == "auto" and s0 == 0.0:
        rep.finding("C05-legacy-auto-scale-zero-for-all-zero-channel",
                    f"{desc(c)} on a {kind} tensor {shape}: the exposed scale of an all-zero channel is 0.0 (not positive); outputs stay finite",
                    {"config": c, "x_bits": xb})
        continue
      what = []
      if bad:
        what.append(f"{bad} outputs are not (exposed scale) * (integer code of the declared width)")
      if pos:
        what.append(f"the exposed scale {s0} is not positive")
      if rel:
        what.append("'auto': the channel maximum is not mapped to the top code / an element is clipped" if c["alpha"] == "auto"
                    else "'auto_po2': the exposed scale is not a power of two within the configured exponent bounds")
      rep.violation(f"group-{desc(c)}-{kind}-{shape}-{g}", f"{desc(c)} on a {kind} tensor {shape}, group {g}: " + "; ".join(what),
                    {"config": c, "x_bits": xb, "y_bits": yb, "scale": s0})
  rep.note(groups_checked=len(items), groups_ok=n_ok, equivariance_elements=n_eq)
  # ---- the shape helpers (pure Python): exhaustively over small shapes, single axis and lists of axes, vs Quant/Shape.v
  import itertools as _it
  import qkeras.quantizers as _QZ
  stexts, sitems = [], []
  dims = [1, 2, 4, 6]
  for rank in (1, 2, 3):
    for shape in _it.product(dims, repeat=rank):
      for a in range(rank):
        for f in (1, 2, 3):
          try:
            us, ua = _QZ._get_unrolled_shape(list(shape), f, a)
            rb = _QZ._get_rolled_back_shape(list(us), ua)
          except Exception as e:  # pylint: disable=broad-except
            rep.violation(f"shape-helper-raises-{shape}-{f}-{a}", f"_get_unrolled_shape({list(shape)}, {f}, {a}) raised {type(e).__name__}: {e}", {})
            continue
          stexts.append(f"(render_unroll {vlib.zlist(shape)} [({a}%nat, {f})]) ++ [-2] ++ roll_many (fst (unroll_many {vlib.zlist(shape)} [({a}%nat, {f})] 0)) [{a}%nat] 0")
          sitems.append((shape, f, a, list(us) + [-1, ua] + [-2] + list(rb)))
      if rank >= 2:
        for a1, a2 in _it.combinations(range(rank), 2):
          for f1, f2 in ((2, 2), (1, 3), (2, 1)):
            us, ua = _QZ._get_unrolled_shape(list(shape), [f1, f2], [a1, a2])
            rb = _QZ._get_rolled_back_shape(list(us), list(ua))
            afs = f"[({a1}%nat, {f1}); ({a2}%nat, {f2})]"
            stexts.append(f"(render_unroll {vlib.zlist(shape)} {afs}) ++ [-2] ++ (let '(s_, ax_) := unroll_many {vlib.zlist(shape)} {afs} 0 in roll_many s_ ax_ 0)")
            sitems.append((shape, [f1, f2], [a1, a2], list(us) + [-1] + list(ua) + [-2] + list(rb)))
  souts = vlib.coq_eval(PROP + "_shape", "From Coq Require Import ZArith List.\nFrom QV Require Import Quant.Shape.\nImport ListNotations.\nOpen Scope Z_scope.\n" +
                        "".join(f"Eval vm_compute in {t}.\n" for t in stexts))
  n_sh = 0
  for (shape, f, a, want), got in zip(sitems, souts):
    if got != want:
      rep.violation(f"shape-helper-{shape}-{f}-{a}", f"_get_unrolled_shape / _get_rolled_back_shape on shape {list(shape)}, factor {f}, axis {a}: "
                    f"[unrolled shape, -1, unrolled axes, -2, rolled back shape] = {want} but the Coq model gives {got}", {"shape": list(shape)})
    else:
      n_sh += 1
  rep.note(shape_helper_cases=len(sitems), shape_helper_agree=n_sh)
  rep.sample({"config": desc(items[0][0]), "tensor": items[0][1], "shape": list(items[0][2]), "x_bits": items[0][4][:4], "y_bits": items[0][5][:4], "scale": items[0][6]})
  rep.assumptions += ["tf reductions (max / mean) and float32 log are not modelled: the checker only uses the scale the quantizer exposes after the call",
                      "'auto' no-clipping is judged with a 2^-18 relative band on |x|/scale (float32 division)",
                      "the consumer relation of model_save_quantized_weights (utils.py:335-359) is covered by C14"]
  return rep.finish(vlib.TRUSTED_COMMON + ["translator tools/translate/lingen.py regenerates coq/gen/LinGen.v (quantized_linear: clip bounds and the alpha='auto' scale formula with the group maximum as a parameter); Link/LinAutoLink.v proves the covering theorems on it; the reduction K.max over the scale axes and the auto_po2 refinement loop are decided by the relational checker only",
                                          "model Quant/AutoScale.v is hand-written; tie = certified relational checker evaluated on the implementation's inputs/outputs/scales"])


if __name__ == "__main__":
  sys.exit(main())

"""C19 -- qtools operation counts are the true MAC counts and energy totals add up."""
import itertools
import os
import sys

sys.path.insert(0, os.path.dirname(os.path.dirname(os.path.abspath(__file__))))
import vlib  # noqa: E402
from harness import env  # noqa: E402
import numpy as np  # noqa: E402
from fractions import Fraction  # noqa: E402

PROP = "C19"
tf = env.tf
HEADER = ("From Coq Require Import ZArith List Bool QArith Qround.\n"
          "From QV Require Import QTools.OpCount.\n"
          "Open Scope Z_scope. Import ListNotations.\n")


def brute_conv2d(h, w, ci, co, kh, kw, sh, sw, dh, dw, pad, groups):
  """count (oy,ox,co,ky,kx,ci_in_group) tuples of the loop nest, skipping nothing (padding taps count as MACs in hardware)"""
  if pad == "valid":
    ho = len([o for o in range(h) if o * sh + (kh - 1) * dh + 1 <= h])
    wo = len([o for o in range(w) if o * sw + (kw - 1) * dw + 1 <= w])
  else:
    ho = len([o for o in range(h) if o * sh < h])
    wo = len([o for o in range(w) if o * sw < w])
  n = 0
  for _oy in range(ho):
    for _ox in range(wo):
      n += co * kh * kw * (ci // groups)
  return n, ho, wo


def gen_args(lyr, ishape):
  """the arguments of the regenerated get_operation_count (coq/gen/OpCountGen.v) for this layer"""
  ish = ishape[0] if isinstance(ishape, list) else ishape
  zl = lambda t: "[" + "; ".join(str(-1 if d is None else int(d)) for d in t) + "]"
  try:
    osh = zl(lyr.compute_output_shape(ish))
  except Exception:  # pylint: disable=broad-except
    osh = "[]"
  ws = lyr.get_weights()
  wsh = zl(ws[0].shape) if ws else "[]"
  pool = f"(Some {zl(lyr.pool_size)})" if hasattr(lyr, "pool_size") else "None"
  return f'gen_opcount "{lyr.__class__.__name__}" {zl(ish)} {osh} {wsh} {pool} {int(getattr(lyr, "groups", 1))}'


def main():
  rep = vlib.Report(PROP, "proof")
  from translate import opcountgen, energygen, memgen, extractgen
  gen = opcountgen.emit(vlib.GEN)
  egen = energygen.emit(vlib.GEN)
  mgen = memgen.emit(vlib.GEN)
  xgen = extractgen.emit(vlib.GEN)
  info = vlib.build_obligations(PROP, gen_files=[gen, egen, mgen, xgen], extra_files=[os.path.join(vlib.COQ, "theories", "Link", "OpCountLink.v"),
                                                                                     os.path.join(vlib.COQ, "theories", "Link", "EnergyLink.v"),
                                                                                     os.path.join(vlib.COQ, "theories", "Link", "MemLink.v"),
                                                                                     os.path.join(vlib.COQ, "theories", "Link", "ExtractLink.v")])
  errs = rep.obligations(info, "python3 tools/translate/opcountgen.py coq/gen && python3 tools/translate/energygen.py coq/gen && python3 tools/translate/memgen.py coq/gen && coqc coq/gen/OpCountGen.v coq/gen/EnergyGen.v coq/gen/MemGen.v "
                         "&& coqc coq/theories/Link/OpCountLink.v coq/theories/Link/EnergyLink.v coq/theories/Link/MemLink.v && coqc coq/theories/Properties/C19.v")
  for e in errs:
    rep.violation("obligation-" + os.path.basename(e["file"]), "proof obligation no longer checks: " + e["error"][-400:],
                  {"file": e["file"]}, no_input=True)
  import tensorflow.keras.layers as L
  import qkeras
  from qkeras.qtools import qtools_util
  rng = np.random.default_rng(vlib.SEED)
  rep.cov["rule"] = ("real built layers (QConv2D/Conv2D, QConv1D, QDepthwiseConv2D, QDense, AveragePooling2D, GlobalAveragePooling2D, Add, "
                     "Flatten) over kernel 1..5, strides 1..3, same/valid, dilation 1..2, channels 1..8, spatial 4..12, groups, depth "
                     "multiplier: get_operation_count vs a brute-force loop-nest count, vs the Coq formula, and Keras' output extent vs the "
                     "Coq extent function; energy_estimate on synthetic layer maps over memory options: non-negativity, documented entry "
                     "functions, total vs entries, extract_energy_sum. distinct = distinct (layer class, geometry) resp. (map, options)")
  n = 80 if rep.tier == "quick" else 900
  texts, items, gens = [], [], []
  qb = "quantized_bits(4,0,1)"
  for i in range(n):
    kind = ["conv2d", "conv2d", "conv1d", "depthwise", "dense", "avgpool", "gap", "add", "flatten", "kconv2d"][i % 10]
    h, w = int(rng.integers(4, 13)), int(rng.integers(4, 13))
    ci = int(rng.integers(1, 9))
    co = int(rng.integers(1, 9))
    kh, kw = int(rng.integers(1, 6)), int(rng.integers(1, 6))
    sh, sw = int(rng.integers(1, 4)), int(rng.integers(1, 4))
    d = int(rng.integers(1, 3))
    pad = ["valid", "same"][int(rng.integers(0, 2))]
    if d > 1:
      sh = sw = 1
    if pad == "valid" and ((kh - 1) * d + 1 > h or (kw - 1) * d + 1 > w):
      kh = min(kh, 2)
      kw = min(kw, 2)
      d = 1
    try:
      if kind in ("conv2d", "kconv2d"):
        groups = int(rng.choice([1, 1, 1, 2]))
        if groups == 2:
          ci, co = 2 * max(1, ci // 2), 2 * max(1, co // 2)
        if kind == "conv2d":
          lyr = qkeras.QConv2D(co, (kh, kw), strides=(sh, sw), padding=pad, dilation_rate=(d, d), groups=groups, kernel_quantizer=qb, bias_quantizer=qb)
        else:
          lyr = L.Conv2D(co, (kh, kw), strides=(sh, sw), padding=pad, dilation_rate=(d, d), groups=groups)
        ishape = (None, h, w, ci)
        lyr.build(ishape)
        got = qtools_util.get_operation_count(lyr, ishape)
        true, ho, wo = brute_conv2d(h, w, ci, co, kh, kw, sh, sw, d, d, pad, groups)
        oshape = lyr.compute_output_shape(ishape)
        geo = dict(kind=kind, h=h, w=w, ci=ci, co=co, kh=kh, kw=kw, sh=sh, sw=sw, d=d, pad=pad, groups=groups)
        ext = (f"[{'out_valid' if pad == 'valid' else 'out_same'} {h} " + (f"{kh} {sh} {d}" if pad == "valid" else f"{sh}") + "; " +
               f"{'out_valid' if pad == 'valid' else 'out_same'} {w} " + (f"{kw} {sw} {d}" if pad == "valid" else f"{sw}") + "; " +
               f"oc_conv2d {oshape[1]} {oshape[2]} {co} {kh} {kw} {ci} {groups}]")
        items.append((geo, got, true, [oshape[1], oshape[2], got], None))
        texts.append(ext)
      elif kind == "conv1d":
        lyr = qkeras.QConv1D(co, kh, strides=sh, padding=pad, dilation_rate=d, kernel_quantizer=qb, bias_quantizer=qb)
        ishape = (None, h, ci)
        lyr.build(ishape)
        got = qtools_util.get_operation_count(lyr, ishape)
        oshape = lyr.compute_output_shape(ishape)
        to = len([o for o in range(h) if (o * sh + (kh - 1) * d + 1 <= h if pad == "valid" else o * sh < h)])
        true = to * co * kh * ci
        geo = dict(kind=kind, t=h, ci=ci, co=co, k=kh, s=sh, d=d, pad=pad)
        items.append((geo, got, true, [oshape[1], got], None))
        texts.append(f"[{'out_valid' if pad == 'valid' else 'out_same'} {h} " + (f"{kh} {sh} {d}" if pad == "valid" else f"{sh}") +
                     f"; oc_conv1d {oshape[1]} {co} {kh} {ci}]")
      elif kind == "depthwise":
        dm = int(rng.choice([1, 1, 2]))
        lyr = qkeras.QDepthwiseConv2D((kh, kw), strides=(sh, sw), padding=pad, depth_multiplier=dm, depthwise_quantizer=qb, bias_quantizer=qb)
        ishape = (None, h, w, ci)
        lyr.build(ishape)
        got = qtools_util.get_operation_count(lyr, ishape)
        oshape = lyr.compute_output_shape(ishape)
        _, ho, wo = brute_conv2d(h, w, ci, ci, kh, kw, sh, sw, 1, 1, pad, 1)
        true = ho * wo * ci * dm * kh * kw
        geo = dict(kind=kind, h=h, w=w, ci=ci, dm=dm, kh=kh, kw=kw, sh=sh, sw=sw, pad=pad)
        items.append((geo, got, true, [oshape[1], oshape[2], got], None))
        texts.append(f"[{'out_valid' if pad == 'valid' else 'out_same'} {h} " + (f"{kh} {sh} 1" if pad == "valid" else f"{sh}") + "; " +
                     f"{'out_valid' if pad == 'valid' else 'out_same'} {w} " + (f"{kw} {sw} 1" if pad == "valid" else f"{sw}") + "; " +
                     f"oc_depthwise {kh} {kw} {oshape[1]} {oshape[2]} {ci * dm}]")
      elif kind == "dense":
        lyr = qkeras.QDense(co, kernel_quantizer=qb, bias_quantizer=qb)
        ishape = (None, ci * 7)
        lyr.build(ishape)
        got = qtools_util.get_operation_count(lyr, ishape)
        true = ci * 7 * co
        items.append((dict(kind=kind, ni=ci * 7, no=co), got, true, [got], None))
        texts.append(f"[oc_dense {ci * 7} {co}]")
      elif kind == "avgpool":
        ph, pw = int(rng.integers(1, 4)), int(rng.integers(1, 4))
        # overlapping / strided windows and same padding: the number of windows is the output extent, not input // pool
        if rng.integers(0, 2):
          psh, psw, ppad = ph, pw, "valid"
        else:
          psh, psw, ppad = int(rng.integers(1, 4)), int(rng.integers(1, 4)), pad
        lyr = L.AveragePooling2D((ph, pw), strides=(psh, psw), padding=ppad)
        ishape = (None, h, w, ci)
        got = qtools_util.get_operation_count(lyr, ishape)
        oshape = lyr.compute_output_shape(ishape)
        # brute force: one window per admissible position
        nh = len([o for o in range(h) if (o * psh + ph <= h if ppad == "valid" else o * psh < h)])
        nw = len([o for o in range(w) if (o * psw + pw <= w if ppad == "valid" else o * psw < w)])
        true = nh * nw * ci * ph * pw
        fid = None
        items.append((dict(kind=kind, h=h, w=w, c=ci, ph=ph, pw=pw, sh=psh, sw=psw, pad=ppad), got, true, [oshape[1], oshape[2], got], fid))
        ext = (lambda n_, k_, s_: f"out_valid {n_} {k_} {s_} 1" if ppad == "valid" else f"out_same {n_} {s_}")
        texts.append(f"[{ext(h, ph, psh)}; {ext(w, pw, psw)}; oc_pool {oshape[1] * oshape[2]} {ci} {ph} {pw}]")
      elif kind == "gap":
        lyr = L.GlobalAveragePooling2D()
        ishape = (None, h, w, ci)
        got = qtools_util.get_operation_count(lyr, ishape)
        true = ci * h * w
        items.append((dict(kind=kind, h=h, w=w, c=ci), got, true, [got], None))
        texts.append(f"[oc_pool 1 {ci} {h} {w}]")
      elif kind == "add":
        lyr = L.Add()
        ishape = [(None, h, w, ci), (None, h, w, ci)]
        got = qtools_util.get_operation_count(lyr, ishape)
        true = h * w * ci
        items.append((dict(kind=kind, h=h, w=w, c=ci), got, true, [got], None))
        texts.append(f"[oc_elementwise [{h}; {w}; {ci}]]")
      else:
        lyr = L.Flatten()
        ishape = (None, h, w, ci)
        got = qtools_util.get_operation_count(lyr, ishape)
        items.append((dict(kind=kind, h=h, w=w, c=ci), got, h * w * ci, [got], None))
        texts.append(f"[oc_elementwise [{h}; {w}; {ci}]]")
      if len(items) > len(gens):
        gens.append(gen_args(lyr, ishape))
    except Exception as e:  # pylint: disable=broad-except
      rep.violation(f"opcount-raises-{kind}-{i}", f"get_operation_count raised {type(e).__name__}: {e}", {"kind": kind})
      continue
  body = HEADER + "".join(f"Eval vm_compute in {t}.\n" for t in texts)
  outs = vlib.coq_eval(PROP + "_counts", body)
  # translator validation: the regenerated get_operation_count evaluated in Coq on the same layers
  if not errs:
    gbody = ("From Coq Require Import ZArith String List.\nFrom QVGen Require Import OpCountGen.\nImport ListNotations.\n"
             "Open Scope Z_scope.\nOpen Scope string_scope.\n" + "".join(f"Eval vm_compute in [{t}].\n" for t in gens))
    gouts = vlib.coq_eval(PROP + "_gen_counts", gbody)
    nt = 0
    for (geo, got, _t, _w, _f), t, l in zip(items, gens, gouts):
      if l != [got]:
        rep.violation(f"translator-mismatch-{geo['kind']}", f"{geo}: get_operation_count gives {got} but its translation gives {l} ({t})",
                      {"geometry": geo, "impl": got, "translation": l})
      else:
        nt += 1
    rep.note(translator_validation=dict(layers=len(gens), equal=nt))
  n_true = 0
  for (geo, got, true, want_model, fid), l in zip(items, outs):
    rep.count(tuple(sorted(geo.items())))
    if l != want_model:
      rep.violation(f"model-mismatch-{geo['kind']}", f"{geo}: implementation/Keras give {want_model} but the Coq formulas give {l}",
                    {"geometry": geo, "impl": want_model, "model": l})
    if got != true:
      if fid is None:
        rep.violation(f"count-not-loop-nest-{geo['kind']}", f"{geo}: operation_count {got} but the loop nest has {true} MACs", {"geometry": geo})
      else:
        rep.finding(fid, f"{geo}: operation_count {got} but the loop nest has {true} MACs", {"geometry": geo, "reported": got, "true": true})
    else:
      n_true += 1
  rep.note(operation_counts=dict(layers=len(items), equal_to_loop_nest=n_true))
  rep.sample({"geometry": items[0][0], "operation_count": items[0][1], "loop_nest": items[0][2]})

  # ---------------- energy report ----------------
  from qkeras.qtools.qenergy import qenergy
  from qkeras.qtools.quantized_operators import quantizer_factory, multiplier_factory, accumulator_factory, merge_factory
  from qkeras.qtools.run_qtools import QTools
  from qkeras.qtools.settings import cfg
  import qkeras.quantizers as Q
  qf = quantizer_factory.QuantizerFactory()
  mf = multiplier_factory.MultiplierFactory()
  af = accumulator_factory.AccumulatorFactory()

  # documented memory-entry functions, written independently of qenergy.memory_read_energy / memory_write_energy:
  #   placement "dram": a DRAM access of all bits (+ an SRAM access of ceil(bits * sram_mul_factor) words when rd_wr_on_io);
  #   placement "sram": one SRAM access; placement "fixed" (hard-wired weights): no cost.  Model inputs / outputs are
  #   on "dram" when rd_wr_on_io else on "sram".
  def ref_sram(total_bits, mss):
    return float(np.ceil(total_bits * cfg.sram_mul_factor) * max(cfg.sram_rd(np.log2(max(total_bits, mss))), 0))

  def ref_mem(elems, bits, mode, mss, rw, at_io):
    if at_io:
      mode = "dram" if rw else "sram"
    total = elems * bits
    if mode == "dram":
      return float(max(cfg.dram_rd(total), 0)) + (ref_sram(total, mss) if rw else 0.0)
    if mode == "sram":
      return ref_sram(total, mss)
    return 0.0

  def check_mem_entries(tag, lname, en, item_get, ishapes, is_in, is_out, wm, am, mss, rw, weighted, layer=None):
    want_in = sum(ref_mem(int(np.prod(sh[1:])), q_.bits, am, mss, rw, is_in) for sh, q_ in zip(ishapes, item_get("input_quantizer_list")))
    osh = item_get("output_shapes")
    want_out = ref_mem(int(np.prod(osh[1:])), item_get("output_quantizer").bits, am, mss, rw, is_out)
    want_par = 0.0
    if weighted:
      want_par += ref_mem(int(np.prod(item_get("w_shapes"))), item_get("weight_quantizer").bits, wm, mss, rw, False)
      if item_get("bias_quantizer"):
        want_par += ref_mem(int(np.prod(item_get("b_shapes"))), item_get("bias_quantizer").bits, wm, mss, rw, False)
    elif layer is not None and type(layer).__name__ in ("BatchNormalization", "QBatchNormalization"):
      # one vector of channel length per statistic that has a quantizer
      nch = len(layer.get_weights()[0])
      for k_ in ("gamma_quantizer", "beta_quantizer", "mean_quantizer", "variance_quantizer"):
        if item_get(k_):
          want_par += ref_mem(nch, item_get(k_).bits, wm, mss, rw, False)
    # the same three entries through the Coq placement model (QTools/Energy.v mem_read / mem_write and their regenerated twins)
    def mexp(kind, elems, bits, mode, at_io):
      total = elems * bits
      d_, s_ = float(max(cfg.dram_rd(total), 0)), ref_sram(total, mss)
      return f'{kind} {vlib.blit(at_io)} {vlib.blit(rw)} "{mode}" {qlit(d_)} {qlit(s_)} {qlit(s_)}'
    e_in = [mexp("mem_read", int(np.prod(sh[1:])), q_.bits, am, is_in) for sh, q_ in zip(ishapes, item_get("input_quantizer_list"))]
    e_out = [mexp("mem_write", int(np.prod(osh[1:])), item_get("output_quantizer").bits, am, is_out)]
    e_par = []
    if weighted:
      e_par.append(mexp("mem_read", int(np.prod(item_get("w_shapes"))), item_get("weight_quantizer").bits, wm, False))
      if item_get("bias_quantizer"):
        e_par.append(mexp("mem_read", int(np.prod(item_get("b_shapes"))), item_get("bias_quantizer").bits, wm, False))
    elif layer is not None and type(layer).__name__ in ("BatchNormalization", "QBatchNormalization"):
      e_par += [mexp("mem_read", len(layer.get_weights()[0]), item_get(k_).bits, wm, False)
                for k_ in ("gamma_quantizer", "beta_quantizer", "mean_quantizer", "variance_quantizer") if item_get(k_)]
    for key, es in (("inputs", e_in), ("outputs", e_out), ("parameters", e_par)):
      mem_cases.append((tag, lname, key, float(en[key]), es, [wm, am, mss, rw, is_in, is_out]))
    for key, want in (("inputs", want_in), ("outputs", want_out), ("parameters", want_par)):
      w2 = float("{0:.2f}".format(want))
      if abs(w2 - en[key]) > 1e-6 * max(1.0, abs(w2)) + 0.011:
        rep.violation(f"{tag}-mem-{key}-{lname}", f"{lname}: energy entry '{key}' = {en[key]} but the documented function of (placement weights={wm}, activations={am}, "
                      f"min_sram_size={mss}, rd_wr_on_io={rw}, input layer={is_in}, output layer={is_out}) gives {w2}", {"options": [wm, am, mss, rw]})

  # ---- op_cost of EVERY layer class against the Coq model QTools/Energy.v (and its regenerated twin coq/gen/EnergyGen.v) ----
  mem_cases = []
  OPKEYS = ["multiplier", "accumulator", "pool_sum_accumulator", "internal_divide_quantizer", "internal_multiplier"]
  opc_cases = []

  def qlit(v):
    f = Fraction(float(v))
    return f"({f.numerator} # {f.denominator})"

  def opc_case(tag, cls_name, item_get, reported):
    """collect one (class, count, number of inputs, unit costs of the reported operators) case; units are the float64 values
    the implementation's own OP table gives for the operator types in the layer map, passed to Coq as exact rationals"""
    gf, uop, uadd, present = {}, {}, {}, {}
    for k in OPKEYS:
      x = item_get(k)
      present[k] = bool(x)
      if x is None or not hasattr(x, "output"):
        continue
      op = qenergy.get_op_type(x.output)
      uadd[k] = float(qenergy.OP[op]["add"](x.output.bits))
      if hasattr(x, "implemented_as") and hasattr(x, "gate_factor"):
        gf[k] = float(x.gate_factor)
        uop[k] = float(qenergy.OP[op][x.implemented_as()](x.gate_bits))
    fun = lambda d_: "(fun k => " + "".join(f'if String.eqb k "{k}" then {qlit(v)} else ' for k, v in d_.items()) + "0)"
    pres = "(fun k => " + "".join(f'if String.eqb k "{k}" then {vlib.blit(v)} else ' for k, v in present.items()) + "false)"
    cnt = int(item_get("operation_count"))
    nin = len(item_get("input_quantizer_list"))
    args = f'{fun(gf)} {fun(uop)} {fun(uadd)} {pres} "{cls_name}" {vlib.zlit(cnt)} {vlib.zlit(nin)}'
    opc_cases.append((tag, cls_name, cnt, nin, float(reported), args))

  def judge_opc_cases():
    if not opc_cases:
      return
    hdr = ("From Coq Require Import ZArith QArith String List Bool.\nFrom QV Require Import QTools.Energy.\nFrom QVGen Require EnergyGen.\n"
           "Import ListNotations.\nOpen Scope string_scope.\n")
    body = hdr + "".join(f"Eval vm_compute in (let q := Qred (op_cost {a}) in let g := Qred (EnergyGen.gen_opcost {a}) in "
                         f"[Qnum q; Zpos (Qden q); Qnum g; Zpos (Qden g)]).\n" for *_x, a in opc_cases)
    outs = vlib.coq_eval(PROP + "_opcost", body)
    ncls = {}
    for (tag, cls_name, cnt, nin, reported, _a), o in zip(opc_cases, outs):
      want = Fraction(o[0], o[1])
      if (o[0], o[1]) != (o[2], o[3]) and not errs:   # a failed translation is already reported as the broken obligation
        rep.violation(f"energy-translator-mismatch-{cls_name}", f"{tag}: the regenerated op_cost dispatch gives {Fraction(o[2], o[3])} but the model QTools/Energy.v {want} "
                      f"for class {cls_name}, count {cnt}, {nin} inputs", {"class": cls_name})
      if abs(Fraction(reported) - want) > Fraction(51, 10000) + abs(want) / 10 ** 9:
        rep.violation(f"op-cost-{cls_name}-{tag}", f"{tag}: energy entry op_cost = {reported} of a {cls_name} layer (operation_count {cnt}, {nin} inputs) but the documented function "
                      f"of the reported operator types, count and number of inputs gives {float(want):.4f}", {"class": cls_name, "count": cnt, "inputs": nin})
      ncls[cls_name] = ncls.get(cls_name, 0) + 1
    rep.note(op_cost_entries_vs_model=dict(sorted(ncls.items())))
    # memory entries: sum of mem_read / mem_write terms, model and regenerated code
    hdr2 = ("From Coq Require Import ZArith QArith String List Bool.\nFrom QV Require Import QTools.Energy.\nFrom QVGen Require MemGen.\n"
            "Import ListNotations.\nOpen Scope string_scope.\nOpen Scope Q_scope.\n")
    sm = lambda es, pre: " + ".join(["0"] + [f"({pre}{e_})" for e_ in es])
    body2 = hdr2 + "".join(f"Eval vm_compute in (let q := Qred ({sm(es, '')}) in let g := Qred ({sm(es, 'MemGen.gen_')}) in "
                           f"[Qnum q; Zpos (Qden q); Qnum g; Zpos (Qden g)]).\n" for *_x, es, _o in mem_cases)
    outs2 = vlib.coq_eval(PROP + "_mem", body2)
    nm = 0
    for (tag, lname, key, reported, es, opts), o in zip(mem_cases, outs2):
      want = Fraction(o[0], o[1])
      if (o[0], o[1]) != (o[2], o[3]) and not errs:
        rep.violation(f"mem-translator-mismatch-{key}", f"{tag} {lname}: the regenerated memory functions give {Fraction(o[2], o[3])} but the model QTools/Energy.v {want} for entry '{key}' "
                      f"(weights, activations, min_sram_size, rd_wr_on_io, input layer, output layer = {opts})", {"options": opts})
      if abs(Fraction(reported) - want) > Fraction(51, 10000) + abs(want) / 10 ** 6:
        rep.violation(f"mem-model-{key}-{tag}-{lname}", f"{tag} {lname}: energy entry '{key}' = {reported} but the placement model (QTools/Energy.v) gives {float(want):.4f} for "
                      f"(weights, activations, min_sram_size, rd_wr_on_io, input layer, output layer) = {opts}", {"options": opts})
      else:
        nm += 1
    rep.note(memory_entries_vs_model=dict(entries=len(mem_cases), agree=nm))

  def mk_layer(cls_name, name, input_shape, weights):
    cls = type(cls_name, (object,), {})
    o = cls()
    o.name = name
    o.input_shape = input_shape
    o.get_weights = lambda: weights
    return o
  nmaps = 40 if rep.tier == "quick" else 400
  etexts, eitems = [], []
  for mi in range(nmaps):
    nl = int(rng.integers(1, 5))
    layers, dmap = [], {}
    for li in range(nl):
      SYN = ["QDense", "QConv2D", "QActivation", "Dense", "QDepthwiseConv2D", "Add", "Multiply", "Subtract", "AveragePooling2D",
             "GlobalAveragePooling2D", "BatchNormalization", "Flatten"]
      cls_name = SYN[(mi * 5 + li * 7 + int(rng.integers(0, 2))) % len(SYN)]     # rotation: every class in every run
      if li == 0:
        # the class each non-shipped cost setting has a special (empty / partial) rule for is always present in the maps judged with it
        cls_name = {1: "QActivation", 2: "Dense", 3: "QDepthwiseConv2D"}.get(mi % 4, cls_name)
      wq = qf.make_quantizer(Q.quantized_bits(int(rng.integers(2, 9)), 0, 1))
      iq = qf.make_quantizer(rng.choice([Q.quantized_relu(int(rng.integers(2, 9)), 1), Q.quantized_bits(8, 0, 1), None]))
      oq = qf.make_quantizer(Q.quantized_relu(int(rng.integers(2, 9)), 1))
      mult = mf.make_multiplier(wq, iq)
      kshape = (3, 3, int(rng.integers(1, 9)), int(rng.integers(1, 9)))
      acc = af.make_accumulator(kshape, mult, use_bias=True)
      ishape = (None, int(rng.integers(2, 9)), int(rng.integers(2, 9)), kshape[2])
      oshape = (None, ishape[1], ishape[2], kshape[3])
      lay = mk_layer(cls_name, f"l{li}", ishape, [np.zeros(kshape), np.zeros(kshape[3])])
      item = dict(input_quantizer_list=[iq], operation_count=int(rng.integers(0, 5000)), output_shapes=oshape, output_quantizer=oq,
                  multiplier=mult, accumulator=acc, weight_quantizer=wq, w_shapes=kshape,
                  bias_quantizer=(qf.make_quantizer(Q.quantized_bits(8, 0, 1)) if rng.integers(0, 2) else None), b_shapes=(kshape[3],))
      if cls_name in ("Add", "Multiply", "Subtract"):
        # n inputs of rank r, n and r varied independently (n - 1 operations per element, whatever the rank)
        nin = 2 + (mi + li) % 3
        rank = 2 + (mi // 3 + li) % 3
        msh = (None,) + tuple(int(rng.integers(2, 6)) for _ in range(rank - 1))
        iqs = [qf.make_quantizer(Q.quantized_relu(int(rng.integers(2, 9)), 1)) for _ in range(nin)]
        mq = merge_factory.MergeFactory().make_quantizer([(q_, {}) for q_ in iqs], "Multiply" if cls_name == "Multiply" else "Add")
        lay = mk_layer(cls_name, f"l{li}", [msh] * nin, [])
        item = dict(input_quantizer_list=iqs, operation_count=int(np.prod(msh[1:])), output_shapes=msh, output_quantizer=mq.output, multiplier=mq, accumulator=None)
      elif cls_name in ("AveragePooling2D", "GlobalAveragePooling2D"):
        fm = mf.make_multiplier(iq, iq)
        fm.output = iq
        pacc = af.make_accumulator((int(rng.integers(1, 4)), int(rng.integers(1, 4)), 1, 1), fm, use_bias=False)
        lay = mk_layer(cls_name, f"l{li}", ishape, [])
        item = dict(input_quantizer_list=[iq], operation_count=int(rng.integers(0, 5000)), output_shapes=oshape, output_quantizer=pacc.output,
                    pool_sum_accumulator=pacc, pool_avg_multiplier=None, average_quantizer=None)
      elif cls_name == "BatchNormalization":
        gq = [qf.make_quantizer(Q.quantized_bits(int(rng.integers(2, 9)), 0, 1)) if rng.integers(0, 3) else None for _ in range(4)]
        lay = mk_layer(cls_name, f"l{li}", ishape, [np.zeros(ishape[-1])] * 4)
        item = dict(input_quantizer_list=[iq], operation_count=int(rng.integers(0, 5000)), output_shapes=ishape, output_quantizer=oq,
                    gamma_quantizer=gq[0], beta_quantizer=gq[1], mean_quantizer=gq[2], variance_quantizer=gq[3],
                    internal_divide_quantizer=(mf.make_multiplier(wq, iq) if (mi + li) % 3 else None),
                    internal_multiplier=(mult if (mi + li) % 2 else None))
      elif cls_name == "Flatten":
        lay = mk_layer(cls_name, f"l{li}", ishape, [])
        item = dict(input_quantizer_list=[iq], operation_count=int(np.prod(ishape[1:])), output_shapes=(None, int(np.prod(ishape[1:]))), output_quantizer=iq)
      layers.append(lay)
      dmap[lay] = item
    model = type("M", (object,), {})()
    model.layers = layers
    lmap = {"output_layers": [layers[-1]], "input_layers": [layers[0]], "layer_data_type_map": dmap}
    wm = str(rng.choice(["dram", "sram", "fixed"]))
    am = str(rng.choice(["dram", "sram"]))
    mss = int(rng.choice([0, 1000, 1000000]))
    rw = bool(rng.integers(0, 2))
    try:
      res = qenergy.energy_estimate(model, lmap, wm, am, mss, rw)
    except Exception as e:  # pylint: disable=broad-except
      rep.violation(f"energy-raises-{mi}", f"energy_estimate raised {type(e).__name__}: {e}", {"options": [wm, am, mss, rw]})
      continue
    rep.count(("energy", mi, wm, am, mss, rw, nl))
    entries = []
    for lay in layers:
      en = res[lay.name]["energy"]
      vals = [en["inputs"], en["outputs"], en["parameters"], en["op_cost"]]
      if min(vals) < 0:
        rep.violation(f"negative-energy-{mi}", f"negative energy entry {en}", {"layer": lay.name})
      entries.append((res[lay.name]["class_name"], vals))
      check_mem_entries(f"syn{mi}", lay.name, en, lambda k, it=dmap[lay]: it.get(k), lay.input_shape if isinstance(lay.input_shape, list) else [lay.input_shape],
                        lay is layers[0], lay is layers[-1], wm, am, mss, rw,
                        res[lay.name]["class_name"] in ("QDense", "QConv2D", "Dense", "QDepthwiseConv2D"), lay)
      opc_case(f"syn{mi}-{lay.name}", res[lay.name]["class_name"], lambda k, it=dmap[lay]: it.get(k), en["op_cost"])
      # documented entry functions, recomputed independently in float64
      item = dmap[lay]
      if res[lay.name]["class_name"] in ("QDense", "QConv2D", "Dense", "QDepthwiseConv2D"):
        m_, a_ = item["multiplier"], item["accumulator"]
        op = "fpm" if not m_.output.is_floating_point else "fp" + str(m_.output.bits)
        c1 = m_.gate_factor * qenergy.OP[op][m_.implemented_as()](m_.gate_bits)
        opa = "fpm" if not a_.output.is_floating_point else "fp" + str(a_.output.bits)
        c2 = qenergy.OP[opa]["add"](a_.output.bits)
        want = float("{0:.2f}".format(item["operation_count"] * (c1 + c2)))
        if abs(want - en["op_cost"]) > 1e-6 * max(1.0, abs(want)):
          rep.violation(f"op-cost-{mi}", f"op_cost {en['op_cost']} is not count*(mult+add) = {want}", {"layer": lay.name})
      elif res[lay.name]["class_name"] in ("QActivation", "Flatten") and en["op_cost"] != 0:
        rep.violation(f"op-cost-activation-{mi}", f"activation / reshaping layer has op_cost {en['op_cost']}", {"layer": lay.name})
    total = res["total_cost"]
    # total vs printed entries, and extract_energy_sum, recomputed exactly in Coq
    flat = [v for _, vals in entries for v in vals]
    qlits = "[" + "; ".join(f"({Fraction(v).numerator} # {Fraction(v).denominator})" for v in flat) + "]"
    etexts.append(f"(let s := qsum {qlits} in [Qfloor s; Qceiling s])")
    # cost settings: the shipped one and settings with empty / partial class rules and without a default
    setting = [cfg.include_energy,
               {"QActivation": [], "QDense": ["op_cost"], "default": ["inputs", "outputs", "parameters", "op_cost"]},
               {"QConv2D": ["parameters", "op_cost"], "Dense": [], "default": []},
               {"QDepthwiseConv2D": ["inputs"]}][mi % 4]
    keysets = []
    for cname, vals in entries:
      keys = setting[cname] if cname in setting else setting.get("default", [])
      idx = [["inputs", "outputs", "parameters", "op_cost"].index(k) for k in keys]
      keysets.append((idx, vals))
    lits = "[" + "; ".join("([" + "; ".join(f"{k}%nat" for k in idx) + "], [" +
                           "; ".join(f"({Fraction(v).numerator} # {Fraction(v).denominator})" for v in vals) + "])" for idx, vals in keysets) + "]"
    etexts.append(f"[extract_sum {lits}]")
    qobj = QTools.__new__(QTools)
    try:
      ext = QTools.extract_energy_sum(qobj, setting, res)
      prof = QTools.extract_energy_profile(qobj, setting, res)
    except Exception as e:  # pylint: disable=broad-except
      rep.violation(f"extract-raises-{mi}", f"extract_energy_sum / extract_energy_profile raised {type(e).__name__}: {str(e)[:200]} for the cost setting {setting}", {})
      etexts.pop()
      etexts.pop()
      continue
    for (idx, vals), lay in zip(keysets, layers):
      want_t = sum(vals[k] for k in idx)
      if abs(prof[lay.name]["total"] - want_t) > 1e-6 * max(1.0, abs(want_t)):
        rep.violation(f"extract-profile-{mi}-{lay.name}", f"extract_energy_profile: layer {lay.name} ({res[lay.name]['class_name']}) total {prof[lay.name]['total']} but the entries "
                      f"selected by the cost setting {setting} sum to {want_t}", {"setting": str(setting)})
    eitems.append((mi, total, len(flat), ext, [wm, am, mss, rw, str(setting)]))
  if etexts:
    outs = vlib.coq_eval(PROP + "_energy", HEADER + "".join(f"Eval vm_compute in {t}.\n" for t in etexts))
    for k, (mi, total, nent, ext, opts) in enumerate(eitems):
      fl, ce = outs[2 * k]
      mext = outs[2 * k + 1][0]
      # total = int(sum of unrounded entries); printed entries are rounded to 0.01: |total - sum printed| <= 1 + n/200
      if not (fl - 1 - nent // 200 - 1 <= total <= ce + nent // 200 + 1):
        rep.violation(f"total-not-sum-{mi}", f"total_cost {total} but the printed entries sum to between {fl} and {ce}", {"options": opts})
      if abs(ext - mext) > 1:
        rep.violation(f"extract-sum-{mi}", f"extract_energy_sum {ext} but the selected entries sum to floor {mext}", {"options": opts})
  rep.note(energy=dict(maps=len(eitems)))
  # ---- the real pipeline: QTools(model).pe() on whole models (graph builder under the accessor shims of harness/env.py)
  env.install_keras2_graph_shims()
  env.install_learning_phase()
  env.set_phase(0)
  import c18 as C18
  from qkeras.quantizers import get_quantizer
  nreal = 8 if rep.tier == "quick" else 80
  nbranch = 10 if rep.tier == "quick" else 60
  n_real_layers = 0
  n_subtract = 0

  def gen_branch_model(k):
    """branches joined by a merge layer of 2 or 3 inputs, followed in rotation by (Q)AveragePooling2D / GlobalAveragePooling2D / BatchNormalization"""
    from tensorflow.keras import Model, Input
    cin = int(rng.integers(1, 4))
    hh, ww = int(rng.integers(4, 8)), int(rng.integers(4, 8))
    inp = Input((hh, ww, cin), name=f"bi{k}")
    nbr = 2 + (k % 2)
    merge = ["Add", "Multiply", "Add", "Subtract", "Add"][k % 5]
    if merge in ("Subtract", "Multiply"):
      nbr = 2
    co = int(rng.integers(1, 4))
    brs = []
    for b_ in range(nbr):
      x_ = qkeras.QConv2D(co, int(rng.integers(1, 4)), padding="same", kernel_quantizer="quantized_bits(4,0,1,alpha=1.0)",
                          bias_quantizer="quantized_bits(4,0,1)", name=f"bc{k}_{b_}")(inp)
      brs.append(qkeras.QActivation(f"quantized_relu({int(rng.integers(2, 7))},1)", name=f"ba{k}_{b_}")(x_))
    x_ = getattr(L, merge)(name=f"bm{k}")(brs)
    tail = ["pool", "gap", "qpool", "bn", "none", "qgap"][k % 6]
    if tail == "pool":
      x_ = L.AveragePooling2D((int(rng.integers(1, 3)), int(rng.integers(1, 4))), strides=(int(rng.integers(1, 3)), int(rng.integers(1, 3))),
                              padding=str(rng.choice(["valid", "same"])), name=f"bp{k}")(x_)
    elif tail == "qpool":
      x_ = qkeras.QAveragePooling2D((2, int(rng.integers(1, 3))), average_quantizer="quantized_bits(6,0,1)", name=f"bp{k}")(x_)
    elif tail == "bn":
      x_ = L.BatchNormalization(name=f"bb{k}")(x_)
    if tail == "gap":
      x_ = L.GlobalAveragePooling2D(name=f"bp{k}")(x_)
    elif tail == "qgap":
      x_ = qkeras.QGlobalAveragePooling2D(average_quantizer="quantized_bits(6,0,1)", name=f"bp{k}")(x_)
    else:
      x_ = L.Flatten(name=f"bf{k}")(x_)
    x_ = qkeras.QDense(int(rng.integers(1, 4)), kernel_quantizer="quantized_bits(4,0,1,alpha=1.0)", bias_quantizer="quantized_bits(4,0,1)", name=f"bd{k}")(x_)
    return Model(inp, x_, name=f"bm{k}"), {"merge": merge, "inputs": nbr, "tail": tail}
  for mi in range(nreal + nbranch):
    try:
      m, meta = C18.gen_model(rng, 7000 + mi) if mi < nreal else gen_branch_model(mi - nreal)
      m.set_weights([rng.normal(0, 0.7, size=w.shape).astype(np.float32) for w in m.get_weights()])
      m(tf.constant(rng.normal(0, 1, size=(1,) + tuple(m.input_shape[1:])).astype(np.float32)))   # auto scales get a value
      qt = QTools(m, process="horowitz", source_quantizers=[get_quantizer("quantized_bits(8,2,1)")], is_inference=False, weights_path=None,
                  keras_quantizer="fp32", keras_accumulator="fp32", for_reference=False)
      wm, am = str(rng.choice(["dram", "sram", "fixed"])), str(rng.choice(["dram", "sram"]))
      mss_, rw_ = int(rng.choice([0, 1000000])), bool(rng.integers(0, 2))
      res = qt.pe(weights_on_memory=wm, activations_on_memory=am, min_sram_size=mss_, rd_wr_on_io=rw_)
    except Exception as e:  # pylint: disable=broad-except
      if mi >= nreal and meta.get("merge") == "Subtract" and isinstance(e, AttributeError) and "'NoneType' object has no attribute 'output'" in str(e):
        n_subtract += 1
        rep.finding("C19-merge-factory-has-no-subtract", f"QTools(model) on a model with a Subtract layer raises {type(e).__name__}: {str(e)[:120]}", {"model": meta})
      else:
        rep.violation(f"real-pipeline-raises-{mi}", f"QTools(model).pe() raised {type(e).__name__}: {str(e)[:200]}", {"model": str(meta)[:300]})
      continue
    rep.count(("real", m.to_json(), wm, am))
    lmap = qt._layer_map["layer_data_type_map"]  # pylint: disable=protected-access
    ssum = 0.0
    for l in m.layers[1:]:
      e = lmap[l]
      cnt = e["operation_count"] if isinstance(e, dict) else e.operation_count
      cn = type(l).__name__
      if cn in ("QDense", "QConv1D", "QConv2D", "QDepthwiseConv2D"):
        n_real_layers += 1
        k = l.get_weights()[0]
        osh = tuple(l.output.shape)
        if cn == "QDense":
          true = int(k.shape[0] * k.shape[1])
        elif cn == "QDepthwiseConv2D":
          true = int(np.prod(osh[1:3]) * np.prod(k.shape[:2]) * k.shape[2] * k.shape[3])
        else:
          true = int(np.prod(osh[1:-1]) * np.prod(k.shape))
        if int(cnt) != true:
          rep.violation(f"real-op-count-{mi}-{l.name}", f"{cn} {l.name} kernel {k.shape} output {osh}: QTools reports operation_count {cnt}, the loop nest has {true} MACs",
                        {"layer": cn, "kernel": list(k.shape), "output": [int(v) for v in osh[1:]]})
        en = res[l.name]["energy"]
        m_, a_ = e["multiplier"], e["accumulator"]
        op = "fpm" if not m_.output.is_floating_point else "fp" + str(m_.output.bits)
        c1 = m_.gate_factor * qenergy.OP[op][m_.implemented_as()](m_.gate_bits)
        opa = "fpm" if not a_.output.is_floating_point else "fp" + str(a_.output.bits)
        c2 = qenergy.OP[opa]["add"](a_.output.bits)
        want = float("{0:.2f}".format(cnt * (c1 + c2)))
        if abs(want - en["op_cost"]) > 1e-6 * max(1.0, abs(want)):
          rep.violation(f"real-op-cost-{mi}-{l.name}", f"{l.name}: op_cost {en['op_cost']} is not count*(mult+add) = {want}", {})
      en = res[l.name]["energy"]
      if min(en["inputs"], en["outputs"], en["parameters"], en["op_cost"]) < 0:
        rep.violation(f"real-negative-energy-{mi}-{l.name}", f"{l.name}: negative energy entry {en}", {})
      getv = (lambda k, it=e: it.get(k)) if isinstance(e, dict) else (lambda k, it=e: getattr(it, k, None))
      # loop-nest counts of the layers without weights: one operation per element (merge), one per window element (pooling)
      true_c = None
      if cn in ("Add", "Multiply", "Subtract"):
        true_c = int(np.prod(tuple(l.output.shape)[1:]))
      elif cn in ("AveragePooling2D", "QAveragePooling2D"):
        true_c = int(np.prod(tuple(l.output.shape)[1:]) * np.prod(l.pool_size))
      elif cn in ("GlobalAveragePooling2D", "QGlobalAveragePooling2D"):
        true_c = int(np.prod(tuple(l.input.shape)[1:]))
      if true_c is not None and int(cnt) != true_c:
        rep.violation(f"real-op-count-{mi}-{l.name}", f"{cn} {l.name} input {tuple(l.input[0].shape) if isinstance(l.input, list) else tuple(l.input.shape)} output {tuple(l.output.shape)}: "
                      f"QTools reports operation_count {cnt}, the loop nest has {true_c} operations", {"layer": cn})
      opc_case(f"real{mi}-{l.name}", cn, getv, en["op_cost"])
      ish = l.input_shape if isinstance(l.input_shape, list) else [l.input_shape]
      check_mem_entries(f"real{mi}", l.name, en, getv, ish, l in qt._layer_map["input_layers"], l in qt._layer_map["output_layers"], wm, am, mss_, rw_,  # pylint: disable=protected-access
                        cn in ("QDense", "QConv1D", "QConv2D", "QDepthwiseConv2D"), l)
      ssum += en["inputs"] + en["outputs"] + en["parameters"] + en["op_cost"]
    if abs(res["total_cost"] - ssum) > 1 + len(m.layers) / 50.0:
      rep.violation(f"real-total-{mi}", f"total_cost {res['total_cost']} but the layer entries sum to {ssum}", {})
  rep.note(real_pipeline=dict(models=nreal, branched_models=nbranch, weighted_layers=n_real_layers, subtract_models_refused=n_subtract))
  judge_opc_cases()
  rep.assumptions += ["Keras' compute_output_shape is compared with the Coq extent functions on every generated geometry (a Section-free function, proved to "
                      "characterise the admissible window positions)",
                      "energy polynomials / log2 of qenergy are float64 functions: entries are compared with an independent float64 recomputation, "
                      "totals with exact rational sums of the printed entries (Coq QArith)",
                      "QTools(model) needs four Keras-2 accessors (harness/env.install_keras2_graph_shims, see C18): with them the real pipeline runs on generated models; energy_estimate is also run on synthetic layer maps with stand-in layers to reach option combinations quickly"]
  return rep.finish(vlib.TRUSTED_COMMON + ["translators tools/translate/{opcountgen,energygen,memgen,extractgen}.py regenerate coq/gen/{OpCountGen,EnergyGen,MemGen,ExtractGen}.v; Link/*Link.v prove them equal to QTools/OpCount.v and QTools/Energy.v",
                                          "model QTools/OpCount.v is hand-written; tie = comparison with get_operation_count / Keras on every generated geometry"])


if __name__ == "__main__":
  sys.exit(main())

"""C16 -- qtools multiplier output types represent every product of their operand types."""
import os
import re
import sys

sys.path.insert(0, os.path.dirname(os.path.dirname(os.path.abspath(__file__))))
import vlib  # noqa: E402
from harness import env  # noqa: E402
from checks import qtools_k as QK  # noqa: E402

PROP = "C16"
IMPL_CODE = {"mul": (0, 6), "shifter": (1,), "mux": (2,), "and": (3,), "xor": (4,), "add": (5,)}


def classify_bad(wd, xd):
  """map a failing (weight, input) operand pair to a known-finding id (or None)"""
  po2w, po2x = "po2" in wd, "po2" in xd
  if po2w and po2x and (("relu_po2" in wd) != ("relu_po2" in xd)):
    return "C16-adder-signed-times-unsigned-po2"
  def small_cap(d):
    m = re.search(r"max_value=([0-9.]+)", d)
    return bool(m) and 0.0 < float(m.group(1)) <= 1.0
  if po2w and po2x and (small_cap(wd) != small_cap(xd)):
    return "C16-adder-one-operand-without-exponent-sign-bit"
  if ("bernoulli" in wd) or (wd.startswith("quantized_relu(1,1")):
    return "C16-andgate-01-weight-int-bits"
  return None


def main():
  rep = vlib.Report(PROP, "proof")
  from translate import qtoolsops
  gen = qtoolsops.emit(vlib.GEN)
  info = vlib.build_obligations(PROP, gen_files=[gen], extra_files=[os.path.join(vlib.COQ, "theories", "Link", "QToolsLink.v")])
  errs = rep.obligations(info, "python3 tools/translate/qtoolsops.py coq/gen && coqc coq/gen/QToolsOps.v && coqc coq/theories/Link/QToolsLink.v && coqc coq/theories/Properties/C16.v")
  for e in errs:
    rep.violation("obligation-" + os.path.basename(e["file"]), "proof obligation no longer checks: " + e["error"][-400:],
                  {"file": e["file"]}, no_input=True)
  from qkeras.qtools.quantized_operators import multiplier_factory
  mf = multiplier_factory.MultiplierFactory()
  ops = QK.make_operands(rep.tier)
  small = QK.make_operands(rep.tier, small=True)
  rep.cov["rule"] = ("operand types = qtools conversion (QuantizerFactory) of real qkeras quantizers over bits/integer/sign/max_value "
                     "lattices; (a) every ordered operand pair: factory output (implementation kind + all type fields) vs the Coq "
                     "transcription; (b) brute force: for operand pairs with <= 5 bits every value pair's product is tested for "
                     "membership in the reported type inside Coq. distinct = distinct ordered (weight type, input type) pairs")
  # (a) translation validation of the rules: implementation vs Coq model on all pairs
  items, texts, made = [], [], []
  for wi, (wd, _, w) in enumerate(ops):
    for xi, (xd, _, x) in enumerate(ops):
      try:
        m = mf.make_multiplier(w, x)
        got = (m.implemented_as(), QK.render(m.output))
        made.append((wd, xd, m, got))
      except Exception as e:  # pylint: disable=broad-except
        got = ("raise:" + type(e).__name__, [])
      items.append((wd, xd, got))
      texts.append(f"(let '(i, o) := make_multiplier {QK.qt_lit(w)} {QK.qt_lit(x)} in impl_code i :: render o)")
  # histories: ONE factory makes all the multipliers of a model and qtools reads their types at the end.  Every multiplier
  # made above is still alive: what it reports now must be what it reported when it was made.
  n_late = 0
  for wd, xd, m, got in made:
    late = (m.implemented_as(), QK.render(m.output))
    if late != got:
      n_late += 1
      rep.violation(f"type-changed-after-later-calls-{wd}-{xd}", f"the multiplier made for {wd} x {xd} reported {got} when it was made and reports {late} after later "
                    "make_multiplier calls on the same MultiplierFactory (its output type object is shared)", {"w": wd, "x": xd, "at_creation": got, "later": late})
  rep.note(multipliers_reread_after_all_calls=len(made), changed=n_late)
  shards = []
  SH = 1500
  for s in range(0, len(texts), SH):
    body = QK.HEADER + "".join(f"Eval vm_compute in {t}.\n" for t in texts[s:s + SH])
    shards.append((f"{PROP}_a_{s // SH:03d}", body))
  outs = vlib.coq_eval_many(shards)
  n_cmp = 0
  for s in range(0, len(texts), SH):
    lists = outs[f"{PROP}_a_{s // SH:03d}"]
    for (wd, xd, got), l in zip(items[s:s + SH], lists):
      n_cmp += 1
      rep.count((wd, xd))
      kind, fields = got
      if kind.startswith("raise:"):
        rep.violation(f"factory-raises-{wd}-{xd}", f"make_multiplier({wd}, {xd}) raised {kind}", {"w": wd, "x": xd})
        continue
      if l[0] not in IMPL_CODE.get(kind, ()) or l[1:] != fields:
        rep.violation(f"rule-mismatch-{wd}-{xd}", f"make_multiplier({wd}, {xd}): implementation {kind} {fields} vs Coq model {l}",
                      {"w": wd, "x": xd, "impl": [kind, fields], "model": l})
  rep.note(rule_pairs_compared=n_cmp)
  rep.sample({"weight": items[0][0], "input": items[0][1], "impl_kind": items[0][2][0], "output_fields": items[0][2][1]})
  rep.sample({"weight": items[len(items) // 2][0], "input": items[len(items) // 2][1], "impl_kind": items[len(items) // 2][2][0],
              "output_fields": items[len(items) // 2][2][1]})
  # (b) brute-force membership of every product (small types)
  sm = [(d, q, o) for d, q, o in small if o.mode != 5]
  pairs, texts = [], []
  for wd, _, w in sm:
    for xd, _, x in sm:
      pairs.append((wd, xd))
      texts.append(f"(let b := mul_bad_pairs {QK.qt_lit(w)} {QK.qt_lit(x)} in "
                   f"(Z.of_nat (length b) :: (if mul_zero_ok {QK.qt_lit(w)} {QK.qt_lit(x)} then 1 else 0) :: "
                   f"match b with (a, c) :: _ => [rnum a; rden a; rnum c; rden c] | [] => [] end))")
  shards = []
  SH = 400
  for s in range(0, len(texts), SH):
    body = QK.HEADER + "".join(f"Eval vm_compute in {t}.\n" for t in texts[s:s + SH])
    shards.append((f"{PROP}_b_{s // SH:03d}", body))
  outs = vlib.coq_eval_many(shards)
  n_bf = n_bad = 0
  bad_by_class = {}
  for s in range(0, len(texts), SH):
    lists = outs[f"{PROP}_b_{s // SH:03d}"]
    for (wd, xd), l in zip(pairs[s:s + SH], lists):
      n_bf += 1
      # a +-1 x +-1 product is never zero and its XOR output type {-1,+1} has no zero by construction
      if l[1] != 1 and not (("binary()" in wd) and ("binary()" in xd)):
        rep.violation(f"zero-not-representable-{wd}-{xd}", f"zero is not in the output type of {wd} x {xd}", {"w": wd, "x": xd})
      if l[0] > 0:
        n_bad += 1
        wv = f"{l[2]}/{l[3]}"
        xv = f"{l[4]}/{l[5]}"
        fid = classify_bad(wd, xd)
        det = {"weight_type": wd, "input_type": xd, "weight_value": wv, "input_value": xv, "failing_value_pairs": l[0]}
        bad_by_class.setdefault(fid or "unclassified", []).append(det)
        if fid is None:
          rep.violation(f"product-not-representable-{wd}-{xd}",
                        f"{wd} x {xd}: product {wv} * {xv} is not representable in the reported output type", det)
        else:
          rep.finding(fid, f"{wd} x {xd}: product {wv} * {xv} not representable", det)
  rep.note(bruteforce_type_pairs=n_bf, bruteforce_pairs_with_unrepresentable_product=n_bad,
           unrepresentable_by_class={k: len(v) for k, v in bad_by_class.items()},
           unrepresentable_examples={k: v[0] for k, v in bad_by_class.items()})
  rep.assumptions += ["value sets of the qtools types are defined in QTools/Types.v (fixed: code*2^-frac with two's-complement range; "
                      "po2: +-2^e with e in get_exp's range, plus 0 for gate outputs; ternary/binary by kind)",
                      "np.log2/math.ceil on max_value and np.ceil(np.log2(n)) are modelled by exact integer functions"]
  return rep.finish(vlib.TRUSTED_COMMON + ["translator tools/translate/qtoolsops.py regenerates coq/gen/QToolsOps.v (multiplier / accumulator / adder classes, factory tables, get_exp, quantizer conversion); Link/QToolsLink.v proves it equal to QTools/Ops.v",
                                          "model QTools/Ops.v is a hand transcription; tie = exhaustive comparison of every rule output with the implementation over the operand lattice"])


if __name__ == "__main__":
  sys.exit(main())

"""C11 -- quantized layers equal their Keras layer run on pre-quantized weights (drop-in)."""
import os
import sys

sys.path.insert(0, os.path.dirname(os.path.dirname(os.path.abspath(__file__))))
import vlib  # noqa: E402
from harness import env  # noqa: E402
import numpy as np  # noqa: E402
from translate import layercalls  # noqa: E402

PROP = "C11"
tf = env.tf

QS = ["quantized_bits(4,0,1)", "quantized_bits(6,2,1)", "quantized_po2(4)", "ternary(alpha=1.0)", "binary(alpha=1.0)",
      "quantized_bits(8,0,1,alpha=1.0)", None]
AQ = ["quantized_relu(4,2)", "quantized_bits(6,1,1)", "quantized_tanh(4)", None]


def pick(rng, lst):
  return lst[int(rng.integers(0, len(lst)))]


def eq(a, b, tol):
  a, b = np.asarray(a), np.asarray(b)
  if a.shape != b.shape:
    return False
  if tol == 0:
    return env.f2b(a) == env.f2b(b) or bool(np.all(a == b))
  return bool(np.allclose(a, b, rtol=tol, atol=tol))


def main():
  rep = vlib.Report(PROP, "proof")
  gen = layercalls.emit(vlib.GEN)
  from translate import deconvgen
  dgen = deconvgen.emit(vlib.GEN)
  info = vlib.build_obligations(PROP, gen_files=[gen, dgen])
  errs = rep.obligations(info, "python3 tools/translate/layercalls.py coq/gen && coqc coq/gen/LayerCalls.v && coqc coq/theories/Properties/C11.v")
  for e in errs:
    rep.violation("obligation-" + os.path.basename(e["file"]), "proof obligation no longer checks: " + e["error"][-600:],
                  {"file": e["file"]}, no_input=True)
  import tensorflow.keras.layers as L
  import qkeras
  from qkeras.quantizers import get_quantizer
  rng = np.random.default_rng(vlib.SEED)
  rep.cov["rule"] = ("translator: the call methods of 13 layer classes symbolically executed into data-flow expressions and compared in Coq "
                     "with the stock computation for all flag valuations; differential: random geometries (units/filters 1..8, kernel 1..5, "
                     "strides 1..3, valid/same/causal, dilation, depth multiplier, groups, use_bias) x random weights x quantizer choices: "
                     "quantized layer output vs the stock Keras layer whose weights were replaced by quantizer(weight), followed by the "
                     "activation quantizer; recurrent cells (duck-typed dropout masks) vs a NumPy transcription of the stock cell equations. "
                     "distinct = distinct (layer class, geometry, quantizers)")
  n = 60 if rep.tier == "quick" else 1200
  n_eq = 0
  kinds = ["dense", "conv1d", "conv2d", "depthwise", "sep2d", "sep1d", "avgpool", "gap", "dense_noq", "conv2d_noq",
           "conv2dtranspose", "conv2d_mask", "sep2d_noq", "sep1d_noq", "conv2dtranspose_noq"]
  mask = None
  for i in range(n):
    kind = kinds[i % len(kinds)]
    kq, bq, aq = pick(rng, QS), pick(rng, QS), pick(rng, AQ)
    use_bias = bool(rng.integers(0, 2))
    if kind.endswith("_noq"):
      kq = bq = aq = None
    desc = dict(kind=kind, kq=kq, bq=bq, aq=aq, use_bias=use_bias)
    try:
      if kind in ("dense", "dense_noq"):
        units, nin = int(rng.integers(1, 9)), int(rng.integers(1, 9))
        desc.update(units=units, nin=nin)
        ql = qkeras.QDense(units, use_bias=use_bias, kernel_quantizer=kq, bias_quantizer=bq, activation=aq)
        ref = L.Dense(units, use_bias=use_bias)
        x = rng.normal(0, 1, size=(3, nin)).astype(np.float32)
        wq = ["kernel_quantizer_internal", "bias_quantizer_internal"]
      elif kind == "conv1d":
        f, k, s = int(rng.integers(1, 7)), int(rng.integers(1, 5)), int(rng.integers(1, 3))
        pad = pick(rng, ["valid", "same", "causal"])
        d = 1 if s > 1 else int(rng.integers(1, 3))
        desc.update(filters=f, k=k, s=s, pad=pad, d=d)
        ql = qkeras.QConv1D(f, k, strides=s, padding=pad, dilation_rate=d, use_bias=use_bias, kernel_quantizer=kq, bias_quantizer=bq, activation=aq)
        ref = L.Conv1D(f, k, strides=s, padding=pad, dilation_rate=d, use_bias=use_bias)
        x = rng.normal(0, 1, size=(2, 12, int(rng.integers(1, 5)))).astype(np.float32)
        wq = ["kernel_quantizer_internal", "bias_quantizer_internal"]
      elif kind in ("conv2d", "conv2d_noq"):
        f, kh, kw = int(rng.integers(1, 5)) * 2, int(rng.integers(1, 4)), int(rng.integers(1, 4))
        s = int(rng.integers(1, 3))
        pad = pick(rng, ["valid", "same"])
        d = 1 if s > 1 else int(rng.integers(1, 3))
        groups = int(pick(rng, [1, 1, 2]))
        ci = 2 * int(rng.integers(1, 3))
        desc.update(filters=f, kh=kh, kw=kw, s=s, pad=pad, d=d, groups=groups, ci=ci)
        ql = qkeras.QConv2D(f, (kh, kw), strides=s, padding=pad, dilation_rate=d, groups=groups, use_bias=use_bias,
                            kernel_quantizer=kq, bias_quantizer=bq, activation=aq)
        ref = L.Conv2D(f, (kh, kw), strides=s, padding=pad, dilation_rate=d, groups=groups, use_bias=use_bias)
        x = rng.normal(0, 1, size=(2, 9, 8, ci)).astype(np.float32)
        wq = ["kernel_quantizer_internal", "bias_quantizer_internal"]
      elif kind in ("conv2dtranspose", "conv2dtranspose_noq"):
        f, kh, kw, s = int(rng.integers(1, 5)), int(rng.integers(1, 4)), int(rng.integers(1, 4)), int(rng.integers(1, 4))
        pad = pick(rng, ["valid", "same"])
        desc.update(filters=f, kh=kh, kw=kw, s=s, pad=pad)
        ql = qkeras.QConv2DTranspose(f, (kh, kw), strides=s, padding=pad, use_bias=use_bias, kernel_quantizer=kq, bias_quantizer=bq, activation=aq)
        ref = L.Conv2DTranspose(f, (kh, kw), strides=s, padding=pad, use_bias=use_bias)
        x = rng.normal(0, 1, size=(2, 5, 6, int(rng.integers(1, 4)))).astype(np.float32)
        wq = ["kernel_quantizer_internal", "bias_quantizer_internal"]
      elif kind == "conv2d_mask":
        f, kh, kw = int(rng.integers(1, 5)), int(rng.integers(1, 4)), int(rng.integers(1, 4))
        pad = pick(rng, ["valid", "same"])
        mask = (rng.integers(0, 2, size=(kh, kw))).astype(np.float32)
        desc.update(filters=f, kh=kh, kw=kw, pad=pad, mask=mask.tolist())
        ql = qkeras.QConv2D(f, (kh, kw), padding=pad, use_bias=use_bias, kernel_quantizer=kq, bias_quantizer=bq, activation=aq, mask=mask)
        ref = L.Conv2D(f, (kh, kw), padding=pad, use_bias=use_bias)
        x = rng.normal(0, 1, size=(2, 7, 8, int(rng.integers(1, 4)))).astype(np.float32)
        wq = ["kernel_quantizer_internal", "bias_quantizer_internal"]
      elif kind == "depthwise":
        kh, kw, s, dm = int(rng.integers(1, 4)), int(rng.integers(1, 4)), int(rng.integers(1, 3)), int(rng.integers(1, 3))
        pad = pick(rng, ["valid", "same"])
        d = 1 if s > 1 else int(rng.integers(1, 3))
        desc.update(kh=kh, kw=kw, s=s, dm=dm, pad=pad, d=d)
        ql = qkeras.QDepthwiseConv2D((kh, kw), strides=s, padding=pad, depth_multiplier=dm, dilation_rate=d, use_bias=use_bias,
                                     depthwise_quantizer=kq, bias_quantizer=bq, activation=aq)
        ref = L.DepthwiseConv2D((kh, kw), strides=s, padding=pad, depth_multiplier=dm, dilation_rate=d, use_bias=use_bias)
        x = rng.normal(0, 1, size=(2, 8, 8, int(rng.integers(1, 4)))).astype(np.float32)
        wq = ["depthwise_quantizer_internal", "bias_quantizer_internal"]
      elif kind in ("sep2d", "sep1d", "sep2d_noq", "sep1d_noq"):
        causal_pad = 0
        f, k, dm = int(rng.integers(1, 6)), int(rng.integers(1, 4)), int(rng.integers(1, 3))
        pq = pick(rng, QS) if not kind.endswith("_noq") else None
        ss = int(rng.integers(1, 3))
        sd = 1 if ss > 1 else int(rng.integers(1, 3))
        desc.update(filters=f, k=k, dm=dm, pq=pq, s=ss, d=sd)
        if kind.startswith("sep2d"):
          pad = pick(rng, ["valid", "same"])
          ql = qkeras.QSeparableConv2D(f, (k, k), strides=ss, dilation_rate=sd, padding=pad, depth_multiplier=dm, use_bias=use_bias, depthwise_quantizer=kq,
                                       pointwise_quantizer=pq, bias_quantizer=bq, activation=aq)
          ref = L.SeparableConv2D(f, (k, k), strides=ss, dilation_rate=sd, padding=pad, depth_multiplier=dm, use_bias=use_bias)
          x = rng.normal(0, 1, size=(2, 8, 7, int(rng.integers(1, 4)))).astype(np.float32)
        else:
          pad = pick(rng, ["valid", "same"])   # the pinned Keras 3 base class rejects 'causal' for separable layers
          ql = qkeras.QSeparableConv1D(f, k, strides=ss, dilation_rate=sd, padding=pad, depth_multiplier=dm, use_bias=use_bias, depthwise_quantizer=kq,
                                       pointwise_quantizer=pq, bias_quantizer=bq, activation=aq)
          # the stock Keras-3 SeparableConv1D has no 'causal' mode: the reference pads on the left and runs 'valid'
          ref = L.SeparableConv1D(f, k, strides=ss, dilation_rate=sd, padding=("valid" if pad == "causal" else pad), depth_multiplier=dm, use_bias=use_bias)
          x = rng.normal(0, 1, size=(2, 10, int(rng.integers(1, 4)))).astype(np.float32)
          causal_pad = (k - 1) if pad == "causal" else 0
        desc.update(pad=pad)
        wq = ["depthwise_quantizer_internal", "pointwise_quantizer_internal", "bias_quantizer_internal"]
      elif kind in ("avgpool", "gap"):
        rot = i // len(kinds)                      # the k-th pooling case: quantizer and window shape in rotation, never left to chance
        avq = ["quantized_bits(8,0,1)", "quantized_bits(4,0,1)", None][rot % 3]
        desc.update(avq=avq)
        hh, ww = int(rng.integers(5, 10)), int(rng.integers(5, 10))
        x = rng.normal(0, 1, size=(2, hh, ww, 3)).astype(np.float32)
        if kind == "avgpool":
          # square (int) and rectangular (tuple) windows, explicit strides, both paddings
          if (rot // 3) % 2 == 1:
            ps = int(rng.integers(1, 4))
            area = ps * ps
          else:
            ph_ = int(rng.integers(1, 4))
            ps = (ph_, ph_ + int(rng.integers(1, 3)))        # rectangular: the two extents differ
            area = ps[0] * ps[1]
          st = None if rng.integers(0, 2) else (int(rng.integers(1, 3)), int(rng.integers(1, 3)))
          pp = pick(rng, ["valid", "valid", "same"]) if avq is None else "valid"
          desc.update(pool=ps, strides=st, padding=pp, hw=(hh, ww))
          ql = qkeras.QAveragePooling2D(pool_size=ps, strides=st, padding=pp, average_quantizer=avq, activation=aq)
          base = L.AveragePooling2D(pool_size=ps, strides=st, padding=pp)
          y = ql(tf.constant(x)).numpy()
          if avq:
            want = base(tf.constant(x) * area) * tf.cast(get_quantizer(avq)(1.0 / area), tf.float32)
          else:
            want = base(tf.constant(x))
        else:
          # the layer's own data format, in rotation (the process-wide Keras default stays channels_last): with channels_first the
          # tensor is (batch, C, H, W) and C differs from W, so spatial axes taken from the wrong format give another area
          cf = (rot // 3) % 2 == 1
          dfmt = "channels_first" if cf else None
          if cf:
            x = np.ascontiguousarray(np.transpose(x, (0, 3, 1, 2)))
          ql = qkeras.QGlobalAveragePooling2D(average_quantizer=avq, activation=aq, data_format=dfmt)
          y = ql(tf.constant(x)).numpy()
          area = hh * ww
          desc.update(hw=(hh, ww), data_format=dfmt)
          sp = [2, 3] if cf else [1, 2]
          if avq:
            want = tf.reduce_sum(tf.constant(x), axis=sp) * tf.cast(get_quantizer(avq)(1.0 / area), tf.float32)
          else:
            want = L.GlobalAveragePooling2D(data_format=dfmt)(tf.constant(x))
        if aq:
          want = get_quantizer(aq)(want)
        rep.count(tuple(sorted((k, str(v)) for k, v in desc.items())))
        if not eq(y, want.numpy(), 1e-6):
          rep.violation(f"dropin-{kind}-{i}", f"{desc}: layer output differs from the documented pooling computation", {"layer": desc})
        else:
          n_eq += 1
        if kind != "avgpool":
          # the SAME layer instance on another resolution: a global pooling layer has no weights and accepts any spatial size, and
          # its divisor is the area of the tensor it is given NOW
          h2, w2 = hh + 1 + (i % 3), ww + 2
          x2 = rng.normal(0, 1, size=((2, x.shape[1], h2, w2) if cf else (2, h2, w2, x.shape[-1]))).astype(np.float32)
          try:
            y2 = ql(tf.constant(x2)).numpy()
            if avq:
              want2 = tf.reduce_sum(tf.constant(x2), axis=sp) * tf.cast(get_quantizer(avq)(1.0 / (h2 * w2)), tf.float32)
            else:
              want2 = L.GlobalAveragePooling2D(data_format=dfmt)(tf.constant(x2))
            if aq:
              want2 = get_quantizer(aq)(want2)
            rep.count(("second-resolution",) + tuple(sorted((k, str(v)) for k, v in desc.items())))
            if not eq(y2, want2.numpy(), 1e-6):
              rep.violation(f"dropin-{kind}-{i}-second-resolution", f"{desc}: the same layer instance applied to a {h2}x{w2} tensor after a {hh}x{ww} one "
                            "differs from the documented pooling computation", {"layer": desc, "first": (hh, ww), "second": (h2, w2)})
          except Exception as e:  # pylint: disable=broad-except
            rep.violation(f"dropin-{kind}-{i}-second-resolution-raises", f"{desc}: the same layer instance raised {type(e).__name__} on a second resolution: {str(e)[:160]}",
                          {"layer": desc})
        continue
      xt = tf.constant(x)
      y0 = ql(xt)        # builds
      xref = xt
      if kind.startswith("sep1d") and causal_pad:
        xref = tf.pad(xt, [[0, 0], [causal_pad, 0], [0, 0]])
      ref(xref)
      ws = [rng.normal(0, 0.7, size=w.shape).astype(np.float32) for w in ql.get_weights()]
      ql.set_weights(ws)
      y = ql(xt).numpy()
      # what the layer reports are the quantizers it applies, in weight order
      rq = ql.get_quantizers()
      qws = []
      for w, qq in zip(ws, rq[:len(ws)]):
        qws.append(qq(tf.constant(w)).numpy() if qq is not None else w)
      if kind == "conv2d_mask":
        qws[0] = qws[0] * mask[:, :, None, None]       # the mask removes kernel positions after quantization
      ref.set_weights(qws)
      want = ref(xref)
      if aq:
        want = get_quantizer(aq)(want)
      rep.count(tuple(sorted((k, str(v)) for k, v in desc.items())))
      if not eq(y, want.numpy(), 1e-6):
        rep.violation(f"dropin-{kind}-{i}", f"{desc}: quantized layer output differs from the stock layer on quantizer(weights) "
                      f"(max abs diff {float(np.max(np.abs(y - want.numpy())))})", {"layer": desc, "x_bits": env.f2b(x)[:64]})
      else:
        n_eq += 1
      if kind.endswith("_noq") and not eq(y, want.numpy(), 0):
        rep.violation(f"stock-{kind}-{i}", f"{desc}: without quantizers the layer is not bit-identical to the stock layer", {"layer": desc})
    except Exception as e:  # pylint: disable=broad-except
      rep.violation(f"raises-{kind}-{i}", f"{desc}: {type(e).__name__}: {str(e)[:300]}", {"layer": desc})
  rep.note(feedforward_layers=n, equal_to_reference=n_eq)
  rep.sample({"layer": desc})

  # ---------------- recurrent cells (duck-typed dropout masks) ----------------
  from qkeras.qrecurrent import QSimpleRNNCell, QLSTMCell, QGRUCell
  for cls in (QSimpleRNNCell, QLSTMCell, QGRUCell):
    cls.get_dropout_mask_for_cell = lambda self, inputs, training, count=1: None
    cls.get_recurrent_dropout_mask_for_cell = lambda self, inputs, training, count=1: None

  def sig(v):
    return 1.0 / (1.0 + np.exp(-v))
  ncell = 24 if rep.tier == "quick" else 300
  n_cell_ok = 0
  for i in range(ncell):
    kind = ["rnn", "lstm", "gru"][i % 3]
    units, nin = int(rng.integers(1, 6)), int(rng.integers(1, 6))
    if i % 5 == 0:
      nin = units       # equal sizes: a wrong kernel would not raise a shape error
    kq, rq, bq, sq = pick(rng, QS), pick(rng, QS), pick(rng, QS), pick(rng, [None, "quantized_bits(6,1,1)"])
    impl = int(rng.integers(1, 3))
    reset_after = bool(rng.integers(0, 2))
    desc = dict(kind=kind, units=units, nin=nin, kq=kq, rq=rq, bq=bq, sq=sq, impl=impl, reset_after=reset_after)
    try:
      x = rng.normal(0, 1, size=(2, nin)).astype(np.float32)
      h = rng.normal(0, 1, size=(2, units)).astype(np.float32)
      c = rng.normal(0, 1, size=(2, units)).astype(np.float32)
      common = dict(kernel_quantizer=kq, recurrent_quantizer=rq, bias_quantizer=bq, state_quantizer=sq)
      if kind == "rnn":
        cell = QSimpleRNNCell(units, activation="tanh", **common)
      elif kind == "lstm":
        cell = QLSTMCell(units, activation="tanh", recurrent_activation="sigmoid", implementation=impl, **common)
      else:
        cell = QGRUCell(units, activation="tanh", recurrent_activation="sigmoid", implementation=impl, reset_after=reset_after, **common)
      cell.build((None, nin))
      ws = [rng.normal(0, 0.6, size=w.shape).astype(np.float32) for w in cell.get_weights()]
      cell.set_weights(ws)
      states = [tf.constant(h)] if kind != "lstm" else [tf.constant(h), tf.constant(c)]
      out = cell.call(tf.constant(x), states)
      y = np.asarray(out[0])
      # the quantizer OBJECTS the cell holds (weights get trainable-parameter defaults such as alpha='auto_po2')
      gq = lambda qobj, w: (qobj(tf.constant(w)).numpy() if qobj is not None else w)
      qk_, qr_, qb_, qs_ = cell.quantizers[:4]
      W, U, B = gq(qk_, ws[0]), gq(qr_, ws[1]), gq(qb_, ws[2])
      hq = gq(qs_, h)
      if kind == "rnn":
        want = np.tanh(x @ W + B + hq @ U)
      elif kind == "lstm":
        z = x @ W + hq @ U + B
        zi, zf, zc, zo = np.split(z, 4, axis=1)
        cq = gq(qs_, c)                      # the state quantizer is applied to both h and c
        cn = sig(zf) * cq + sig(zi) * np.tanh(zc)
        want = sig(zo) * np.tanh(cn)
      else:
        if reset_after:
          bi, br = B[0], B[1]
        else:
          bi, br = B, None
        mx = x @ W + bi
        xz, xr, xh = np.split(mx, 3, axis=1)
        if reset_after:
          mi = hq @ U + br
          rz, rr, rh = np.split(mi, 3, axis=1)
          zg, rg = sig(xz + rz), sig(xr + rr)
          hh = np.tanh(xh + rg * rh)
        else:
          rz, rr = np.split(hq @ U[:, :2 * units], 2, axis=1)
          zg, rg = sig(xz + rz), sig(xr + rr)
          hh = np.tanh(xh + (rg * hq) @ U[:, 2 * units:])
        want = zg * hq + (1 - zg) * hh
      rep.count(tuple(sorted((k, str(v)) for k, v in desc.items())))
      if not eq(y, want.astype(np.float32), 2e-5):
        rep.violation(f"cell-{kind}-{i}", f"{desc}: cell output differs from the stock cell equations on quantizer(weights) "
                      f"(max abs diff {float(np.max(np.abs(y - want)))})", {"cell": desc})
      else:
        n_cell_ok += 1
    except Exception as e:  # pylint: disable=broad-except
      rep.violation(f"cell-raises-{kind}-{i}", f"{desc}: {type(e).__name__}: {str(e)[:300]}", {"cell": desc})
  rep.note(recurrent_cells=ncell, cells_equal_to_reference=n_cell_ok)
  # the recurrent WRAPPER layers cannot be built under the pinned Keras
  try:
    qkeras.QSimpleRNN(3, kernel_quantizer="quantized_bits(4,0,1)")(tf.zeros((1, 4, 2)))
  except Exception as e:  # pylint: disable=broad-except
    rep.finding("C11-recurrent-wrapper-layers-do-not-build-under-keras3", f"QSimpleRNN(...)(x) raises {type(e).__name__}: {str(e)[:160]}", {})
  rep.assumptions += ["TensorFlow/Keras operations (dot, conv*, bias_add, pooling, activations) are uninterpreted in the theorems; op aliases of "
                      "tools/translate/layercalls.py (e.g. self.convolution_op = K.conv2d = 'conv') are trusted",
                      "the recurrent cells are driven through their unbound call with dropout masks stubbed to None; the reference is a NumPy "
                      "transcription of the stock cell equations, compared to 2e-5",
                      "feed-forward layers are compared with 1e-6 tolerance (identical kernels; bit-identical required without quantizers)"]
  return rep.finish(vlib.TRUSTED_COMMON + ["layer programs regenerated from /repo on every run by tools/translate/layercalls.py (symbolic execution, fail-closed)"])


if __name__ == "__main__":
  sys.exit(main())

"""Correspondence run shared by C01 and C02: the fixed-point quantizers of
qkeras/quantizers.py against the Coq models of Quant/Fixed.v.

For each configuration the implementation is run eagerly on inputs derived
from the configuration (every rounding breakpoint +-1 ulp, saturation edges,
zeros / denormals, values up to and beyond 2^24 steps, random tensors of rank
0..4) and the Coq model evaluates the same inputs (exact rationals decoded
from the float32 bit patterns) with vm_compute.
"""
import itertools
import math
from fractions import Fraction

import numpy as np

from harness import env
import vlib

tf = env.tf


def f32(x):
  return np.float32(x)


def nbrs(v):
  """float32 value nearest to v, its predecessor and successor"""
  c = np.float32(v)
  return [np.nextafter(c, np.float32(-np.inf)), c, np.nextafter(c, np.float32(np.inf))]


def breakpoint_inputs(step, lo, hi, rng, cap=40):
  ks = list(range(lo - 2, hi + 2))
  allcodes = [np.float32(k * step) for k in ks] if len(ks) <= 300 else []
  if len(ks) > cap:
    keep = set(ks[:6] + ks[-6:] + [-2, -1, 0, 1])
    keep |= set(rng.choice(ks, size=cap - 16, replace=False).tolist())
    ks = sorted(k for k in ks if k in keep)
  xs = []
  for k in ks:
    xs += nbrs((k + 0.5) * step)
    xs.append(np.float32(k * step))
  return xs + allcodes


def special_inputs(step, lo, hi):
  xs = [0.0, -0.0, 1e-45, -1e-45, 1e-39, -1e-39, 2.0 ** -126, -(2.0 ** -126),
        2.0 ** -100, -(2.0 ** -100)]
  for v in (lo * step, hi * step):
    xs += nbrs(v)
  big = (2.0 ** 24) * step
  xs += [big * 0.999, -big * 0.999, big * 0.5, -big * 0.5, big * 4, -big * 4, 3e38, -3e38]
  xs += [step * (2 ** 20 + 0.5), -step * (2 ** 20 + 0.5)]
  return [np.float32(x) for x in xs]


def random_tensor(rng, scale):
  rank = int(rng.integers(0, 5))
  shape = tuple(int(rng.integers(1, 4)) for _ in range(rank))
  kind = rng.integers(0, 3)
  if kind == 0:
    a = rng.normal(0, scale, size=shape)
  elif kind == 1:
    a = rng.uniform(-3 * scale, 3 * scale, size=shape)
  else:
    a = rng.normal(0, 1, size=shape) * (2.0 ** rng.integers(-12, 12, size=shape))
  return np.asarray(a, dtype=np.float32)


ALPHAS = [None, 1.0, 0.5, 2.0, 0.3]


def alpha_frac(a):
  if a is None:
    return Fraction(1)
  return Fraction(float(np.float32(a)))


def configs(tier, rng):
  """yield dicts describing configurations (family + parameters)"""
  out = []
  thorough = tier == "thorough"
  bits_l = [1, 2, 3, 4, 5, 6, 7, 8, 16]
  ints_l = [0, 1, 2, 3, 4, 7]
  # quantized_bits
  allq = []
  for bits, integer, kn, sym, alpha in itertools.product(bits_l, ints_l, [1, 0], [0, 1], ALPHAS):
    if bits - kn < 0:
      continue
    allq.append(dict(fam="qbits", bits=bits, integer=integer, kn=kn, sym=sym, alpha=alpha))
  alll = []
  for bits, integer, kn, sym, alpha in itertools.product([1, 2, 3, 4, 5, 6, 8], [0, 1, 2, 3], [1, 0], [0, 1], ALPHAS):
    alll.append(dict(fam="qlin", bits=bits, integer=integer, kn=kn, sym=sym, alpha=alpha))
  allr = []
  for bits, integer, s, iqc, rub in itertools.product([1, 2, 3, 4, 5, 6, 8], [0, 1, 2, 3], [None, 1, 2, 3, 4], [True, False], [None, "top"]):
    nsb = bits - (0 if s is None else 1)
    if s is not None and (s > nsb):
      continue
    if nsb < 0:
      continue
    allr.append(dict(fam="qrelu", bits=bits, integer=integer, slope=s, iqc=iqc, rub=rub))
  allrs = []
  for bits, integer, mode in itertools.product([2, 3, 4, 6, 8], [0, 1, 2], ["hard", "smooth", "real"]):
    allrs.append(dict(fam="qrelu_sig", bits=bits, integer=integer, mode=mode))
  allt = []
  for bits, sym, mode in itertools.product([1, 2, 3, 4, 5, 6, 8], [0, 1], ["hard", "smooth", "real"]):
    allt.append(dict(fam="qtanh", bits=bits, sym=sym, mode=mode))
    allt.append(dict(fam="qsigmoid", bits=bits, sym=sym, mode=mode))
  if thorough:
    return allq + alll + allr + allrs + allt

  def pick(lst, n):
    idx = rng.choice(len(lst), size=min(n, len(lst)), replace=False)
    return [lst[i] for i in sorted(idx)]
  return pick(allq, 60) + pick(alll, 30) + pick(allr, 36) + pick(allrs, 8) + pick(allt, 24)


def describe(c):
  f = c["fam"]
  if f == "qbits":
    a = "" if c["alpha"] is None else f",alpha={c['alpha']}"
    return f"quantized_bits({c['bits']},{c['integer']},{c['sym']},keep_negative={bool(c['kn'])}{a})"
  if f == "qlin":
    a = "" if c["alpha"] is None else f",alpha={c['alpha']}"
    return f"quantized_linear({c['bits']},{c['integer']},{c['sym']},keep_negative={bool(c['kn'])}{a})"
  if f == "qrelu":
    return (f"quantized_relu({c['bits']},{c['integer']},negative_slope="
            f"{0.0 if c['slope'] is None else 2.0 ** -c['slope']},is_quantized_clip={c['iqc']},"
            f"relu_upper_bound={c['rub']})")
  if f == "qrelu_sig":
    return f"quantized_relu({c['bits']},{c['integer']},use_sigmoid=1)[sigmoid={c['mode']}]"
  return f"{'quantized_tanh' if f == 'qtanh' else 'quantized_sigmoid'}({c['bits']},symmetric={c['sym']})[{c['mode']}]"


def fmt_of(c):
  """(step exponent, lo code, hi code) as python ints -- only used to derive INPUTS"""
  f = c["fam"]
  if f in ("qbits", "qlin"):
    ub = c["bits"] - c["kn"]
    if ub <= 0:
      return 0, -1, 1
    return c["integer"] - ub, c["kn"] * (-(2 ** ub) + c["sym"]), 2 ** ub - 1
  if f == "qrelu":
    nsb = c["bits"] - (0 if c["slope"] is None else 1)
    lo = 0 if c["slope"] is None else -(2 ** (nsb - c["slope"]))
    return c["integer"] - nsb, lo, 2 ** nsb - 1
  if f == "qrelu_sig":
    return c["integer"] - c["bits"], 0, 2 ** c["bits"] - 1
  if f == "qtanh":
    return -(c["bits"] - 1), -(2 ** (c["bits"] - 1)) + c["sym"], 2 ** (c["bits"] - 1) - 1
  return -c["bits"], c["sym"], 2 ** c["bits"] - 1


def hyp_bound(c):
  """the property's hypothesis: |x| below 2^24 steps of the output grid"""
  se, lo, hi = fmt_of(c)
  alpha = float(np.float32(c.get("alpha") or 1.0))
  if c["fam"] == "qbits":
    return 2.0 ** (24 + se) * min(1.0, alpha)
  if c["fam"] == "qlin":
    one_bit = c["bits"] == 1 and c["kn"] == 1
    return 2.0 ** ((23 if one_bit else 24) + c["integer"] - (c["bits"] - c["kn"])) * alpha
  return 2.0 ** (24 + se)


def build(c, via_attribute=False):
  """via_attribute: `symmetric` is a plain, documented-modifiable attribute of quantized_bits / quantized_linear (the library
  itself assigns it: _set_trainable_parameter, QAdaptiveActivation.build); build the quantizer with the OTHER value and assign
  the wanted one afterwards -- the function must be the one of the format the quantizer now reports"""
  import qkeras.quantizers as Q
  f = c["fam"]
  if f == "qbits":
    if via_attribute:
      q = Q.quantized_bits(c["bits"], c["integer"], 1 - int(bool(c["sym"])), keep_negative=bool(c["kn"]), alpha=c["alpha"])
      q.symmetric = c["sym"]
      return q
    return Q.quantized_bits(c["bits"], c["integer"], c["sym"], keep_negative=bool(c["kn"]), alpha=c["alpha"])
  if f == "qlin":
    a = c["alpha"]
    if a is not None:
      a = np.float32(a)
    if via_attribute:
      q = Q.quantized_linear(c["bits"], c["integer"], 1 - int(bool(c["sym"])), keep_negative=bool(c["kn"]), alpha=a)
      q.symmetric = c["sym"]
      return q
    return Q.quantized_linear(c["bits"], c["integer"], c["sym"], keep_negative=bool(c["kn"]), alpha=a)
  if f == "qrelu":
    rub = None
    if c["rub"] == "top":
      se, lo, hi = fmt_of(c)
      rub = float((hi // 2 + 1) * 2.0 ** se)   # on the grid, inside the range
    if via_attribute and c["slope"] is not None:
      # QAdaptiveActivation.__init__ builds the default quantized_relu and ASSIGNS negative_slope afterwards
      q = Q.quantized_relu(c["bits"], c["integer"], 0, 0.0, relu_upper_bound=rub, is_quantized_clip=c["iqc"])
      q.negative_slope = 2.0 ** -c["slope"]
      return q
    return Q.quantized_relu(c["bits"], c["integer"], 0,
                            0.0 if c["slope"] is None else 2.0 ** -c["slope"],
                            relu_upper_bound=rub, is_quantized_clip=c["iqc"])
  if f == "qrelu_sig":
    Q.set_internal_sigmoid(c["mode"])
    return Q.quantized_relu(c["bits"], c["integer"], 1)
  if f == "qtanh":
    if c["mode"] != "real":
      Q.set_internal_sigmoid(c["mode"])
    return Q.quantized_tanh(c["bits"], symmetric=bool(c["sym"]), use_real_tanh=(c["mode"] == "real"))
  if c["mode"] != "real":
    Q.set_internal_sigmoid(c["mode"])
  return Q.quantized_sigmoid(c["bits"], symmetric=bool(c["sym"]), use_real_sigmoid=(c["mode"] == "real"))


def inputs_for(c, rng, tier):
  se, lo, hi = fmt_of(c)
  step = 2.0 ** se
  f = c["fam"]
  if f in ("qtanh", "qsigmoid", "qrelu_sig"):
    # breakpoints live in surrogate space; pull them back through the surrogate
    xs = []
    m_i = 2.0 ** c.get("integer", 0) if f == "qrelu_sig" else 1.0
    for k in range(lo - 1, hi + 2):
      p = (k + 0.5) * step
      if f == "qrelu_sig":
        # code = 2*round(sig*m)-m ; breakpoints of round(sig*m): sig = (j+.5)/m
        p = (k + 0.5) / (2.0 ** c["bits"])
      for slope in ((0.5, 0.1875) if c["mode"] != "real" else (0.25,)):
        if f == "qtanh":
          x = p / (2 * slope)            # tanh ~ 2*sig-1 = 2*slope*x
        else:
          x = (p - 0.5) / slope
        xs += nbrs(x * m_i)
    xs += [0.0, -0.0, 1e-39, -1e-39, 1e-20, -1e-20, 10.0, -10.0, 1e6, -1e6, 2.65, -2.65, 1.0, -1.0,
           8.0 / 3.0, -8.0 / 3.0]
    xs = [np.float32(x) for x in xs]
  else:
    xs = breakpoint_inputs(step, lo, hi, rng) + special_inputs(step, lo, hi)
    if f == "qrelu" and c["slope"] is not None:
      sl = 2.0 ** -c["slope"]
      for k in range(lo - 2, 1):
        xs += nbrs((k + 0.5) * step / sl)
  tensors = [np.asarray(xs, dtype=np.float32)]
  nrand = 6 if tier == "quick" else 12
  scale = max(abs(lo), abs(hi), 1) * step
  for _ in range(nrand):
    tensors.append(random_tensor(rng, scale))
  return tensors


def coq_cfg(c):
  f = c["fam"]
  B = vlib.blit
  if f == "qbits":
    return f"(QB {c['bits']} {c['integer']} {B(c['kn'])} {B(c['sym'])})"
  if f == "qlin":
    return f"(QL {c['bits']} {c['integer']} {B(c['sym'])} {B(c['kn'])})"
  if f in ("qrelu", "qrelu_sig"):
    s = "None" if c.get("slope") is None else f"(Some {c['slope']})"
    rub = "None"
    if c.get("rub") == "top":
      se, lo, hi = fmt_of(c)
      rub = f"(Some {vlib.ratlit(Fraction(hi // 2 + 1) * Fraction(2) ** se)})"
    return f"(QR {c['bits']} {c['integer']} {s} {B(c.get('iqc', True))} {rub})"
  raise ValueError(f)


def coq_checker(c):
  """Coq function Z -> Z -> Z comparing (xbits, ybits); None if predicate-only"""
  f = c["fam"]
  if f == "qbits":
    return f"chk_qbits {coq_cfg(c)} {vlib.ratlit(alpha_frac(c['alpha']))}"
  if f == "qlin":
    return f"chk_qlin {coq_cfg(c)} {vlib.ratlit(alpha_frac(c['alpha']))}"
  if f == "qrelu":
    return f"chk_qrelu {coq_cfg(c)}"
  mode = {"hard": "SHard", "smooth": "SSmooth"}.get(c["mode"])
  if mode is None:
    return None
  if f == "qrelu_sig":
    return f"chk_qrelu_sig {coq_cfg(c)} {mode}"
  if f == "qtanh":
    return f"chk_qtanh {c['bits']} {vlib.blit(c['sym'])} {mode}"
  return f"chk_qsigmoid {c['bits']} {vlib.blit(c['sym'])} {mode}"


HEADER = ("From Coq Require Import ZArith List Bool.\n"
          "From QV Require Import Base.ZQ Base.FL Quant.Fixed.\n"
          "Open Scope Z_scope. Import ListNotations.\n")


def _sig64(mode, x):
  if mode == "hard":
    return np.clip(0.5 * x + 0.5, 0.0, 1.0)
  if mode == "smooth":
    return np.clip(0.1875 * x + 0.5, 0.0, 1.0)
  with np.errstate(over="ignore"):
    return 1.0 / (1.0 + np.exp(-x))


def surrogate64(c, x):
  """float64 value of the surrogate (exact arithmetic for hard/smooth up to double rounding)"""
  x = np.asarray(x, dtype=np.float64)
  f = c["fam"]
  if f == "qtanh":
    return np.tanh(x) if c["mode"] == "real" else 2.0 * _sig64(c["mode"], x) - 1.0
  if f == "qsigmoid":
    return _sig64(c["mode"], x)
  # qrelu_sig: value = m_i * clip(2*sig(x/m_i) - 1, 0, 1-1/m)
  m_i = 2.0 ** c["integer"]
  return m_i * (2.0 * _sig64(c["mode"], x / m_i) - 1.0)


def run(rep, prop):
  """Run the correspondence; returns per-config results for the callers' own checks."""
  rng = np.random.default_rng(vlib.SEED)
  tier = rep.tier
  cfgs = configs(tier, rng)
  ftz = env.calibrate_ftz()
  rep.assumptions.append(f"TensorFlow CPU kernels flush denormals (calibrated this run: {ftz}); the model decodes denormal inputs as 0")
  if not ftz:
    rep.violation("ftz-calibration", "TF no longer flushes denormals; the model's DAZ assumption is wrong", no_input=True)
  results = []
  files = []
  shard, shard_n, shard_items = [], 0, []
  fam_count = {}
  n_inputs = 0

  def flush():
    nonlocal shard, shard_n, shard_items
    if shard:
      name = f"{prop}_k_{len(files):04d}"
      files.append((name, HEADER + "".join(shard), list(shard_items)))
    shard, shard_n, shard_items = [], 0, []

  n_attr = 0
  for ci, c in enumerate(cfgs):
    via_attr = (c["fam"] in ("qbits", "qlin") and ci % 2 == 1) or (c["fam"] == "qrelu" and c.get("slope") is not None and ci % 2 == 1)
    n_attr += int(via_attr)
    q = build(c, via_attribute=via_attr)
    if via_attr and c["fam"] in ("qbits", "qlin") and int(bool(q.get_config().get("symmetric"))) != int(bool(c["sym"])):
      rep.violation(f"symmetric-not-reported-{ci}", f"{describe(c)}: get_config() does not report the assigned symmetric", {"config": c})
    tensors = inputs_for(c, rng, tier)
    xs_all, ys_all = [], []
    for t in tensors:
      y = q(tf.constant(t, dtype=tf.float32)).numpy()
      if y.shape != t.shape:
        rep.violation(f"shape-{ci}", f"{describe(c)} changed the tensor shape {t.shape}->{y.shape}", {"config": c})
      xs_all += env.f2b(t)
      ys_all += env.f2b(y)
    n_inputs += len(xs_all)
    fam_count[c["fam"]] = fam_count.get(c["fam"], 0) + 1
    res = dict(cfg=c, q=q, x=xs_all, y=ys_all, desc=describe(c))
    results.append(res)
    chk = coq_checker(c)
    se, lo, hi = fmt_of(c)
    if chk is not None:
      pairs = "; ".join(f"({a},{b})" for a, b in zip(xs_all, ys_all))
      body = f"Eval vm_compute in summarize (map (fun p => {chk} (fst p) (snd p)) [{pairs}]).\n"
    else:
      xf = env.b2f(xs_all)
      p64 = env.d2b(surrogate64(c, xf))
      if c["fam"] == "qrelu_sig":
        # relu(use_sigmoid) rounds sigmoid*m then doubles: error bound is one step
        tol = -1
      else:
        tol = 16
      pairs = "; ".join(f"({a},{b})" for a, b in zip(ys_all, p64))
      body = (f"Eval vm_compute in summarize (map (fun p => chk_grid_near {vlib.zlit(se)} {vlib.zlit(lo)} "
              f"{vlib.zlit(hi)} {vlib.zlit(tol)} (fst p) (snd p)) [{pairs}]).\n")
    shard.append(body)
    shard_items.append(ci)
    shard_n += len(xs_all)
    if shard_n >= 4000:
      flush()
  flush()
  outs = vlib.coq_eval_many([(n, t) for n, t, _ in files])
  tot_ok = tot_skip = tot_nf = 0
  for name, _, items in files:
    lists = outs[name]
    if len(lists) != len(items):
      rep.violation(f"coq-output-{name}", f"could not parse Coq output for {name}", no_input=True)
      continue
    for ci, l in zip(items, lists):
      ok, skip, nf, bad = l[0], l[1], l[2], l[3:]
      tot_ok += ok
      tot_skip += skip
      tot_nf += nf
      results[ci]["coq"] = dict(ok=ok, skip=skip, nf=nf, bad=bad)
  rep.note(model_vs_impl=dict(configs=len(cfgs), inputs=n_inputs, agree=tot_ok,
                              outside_hypothesis_skipped=tot_skip, non_finite=tot_nf,
                              configs_per_family=fam_count, built_by_assigning_a_modifiable_attribute_after_construction=n_attr))
  return results

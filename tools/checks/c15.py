"""C15 -- batch-norm folding and unfolding preserve the network function at inference."""
import itertools
import os
import sys

sys.path.insert(0, os.path.dirname(os.path.dirname(os.path.abspath(__file__))))
import vlib  # noqa: E402
from harness import env  # noqa: E402
import numpy as np  # noqa: E402

PROP = "C15"
tf = env.tf


class FakeBN:
  """Keras-2 style BatchNormalization stand-in: only the attributes the folded layers read"""

  def __init__(self, c, rng, center=True, scale=True, eps=1e-3, tiny_var=False, zero_gamma=False):
    g = rng.uniform(0.5, 1.5, size=c).astype("float32")
    if zero_gamma:
      g[0] = 0.0
    self.gamma = tf.constant(g) if scale else None
    self.beta = tf.constant(rng.normal(0, 1, size=c).astype("float32")) if center else None       # Keras 2: no beta when center=False
    self.beta_ref = self.beta if center else tf.constant(np.zeros(c, dtype="float32"))
    self.moving_mean = tf.constant(rng.normal(0, 1, size=c).astype("float32"))
    v = rng.uniform(0.1, 2.0, size=c).astype("float32")
    if tiny_var:
      v[-1] = 1e-8
    self.moving_variance = tf.constant(v)
    self.epsilon = eps
    self.axis = [3]
    self._param_dtype = tf.float32

  def _get_training_value(self, training):
    return False if training is None else training

  def _moments(self, x, axes, keep_dims):
    return tf.nn.moments(x, axes, keepdims=keep_dims)

  def __call__(self, x, training=None):
    return x


class FakeSelf:
  pass


def real_layers(rep, rng):
  """The REAL folded layer classes (built through a batch-norm stand-in, see harness/env.py) and the REAL unfold_model:
  layer(x, training=False) = conv -> batch norm; get_folded_weights = documented formulas; a functional model of folded
  layers and its unfold_model image (plain QConv2D / QDepthwiseConv2D carrying the folded weights and the same
  quantizers) predict the same at inference."""
  import keras
  import qkeras
  from qkeras import bn_folding_utils as bfu
  env.install_keras2_graph_shims()
  env.install_keras2_batchnorm_standin()
  from qkeras.qconv2d_batchnorm import QConv2DBatchnorm
  from qkeras.qdepthwiseconv2d_batchnorm import QDepthwiseConv2DBatchnorm
  from qkeras.quantizers import get_quantizer
  co = {}
  qkeras.utils._add_supported_quantized_objects(co)
  n = 24 if rep.tier == "quick" else 300
  n_layer = n_unfold = 0
  KQ = [None, "quantized_bits(8,2,1,alpha=1.0)", "quantized_bits(4,0,1,alpha=1.0)", "quantized_po2(6)"]
  BQ = [None, "quantized_bits(8,3,1)"]
  for i in range(n):
    nl = 1 + int(rng.integers(0, 2))
    spec = []
    for j in range(nl):
      spec.append(dict(depthwise=bool((i + j) % 2), mode=["ema_stats_folding", "batch_stats_folding"][int(rng.integers(0, 2))],
                       use_bias=bool(rng.integers(0, 3) > 0), scale=bool(rng.integers(0, 3) > 0), center=bool(rng.integers(0, 4) > 0),
                       strides=int(rng.integers(1, 3)), padding=["valid", "same"][int(rng.integers(0, 2))], co=int(rng.integers(1, 4)),
                       dm=int(rng.integers(1, 3)), k=int(rng.integers(1, 4)), kq=KQ[int(rng.integers(0, len(KQ)))], bq=BQ[int(rng.integers(0, 2))],
                       eps=[1e-3, 1e-5, 0.1][int(rng.integers(0, 3))], efd=[None, None, 0, 5, -1][int(rng.integers(0, 5))],
                       act=[None, "quantized_relu(6,2)"][int(rng.integers(0, 2))]))
    ci = int(rng.integers(1, 4))
    desc = {"input_channels": ci, "layers": spec}
    rep.count(("real", str(desc)))
    try:
      inp = keras.Input((8, 8, ci), name=f"in{i}")
      x = inp
      lyrs = []
      for j, sp in enumerate(spec):
        kw = dict(strides=(sp["strides"],) * 2, padding=sp["padding"], use_bias=sp["use_bias"], bias_quantizer=sp["bq"], scale=sp["scale"], center=sp["center"],
                  epsilon=sp["eps"], ema_freeze_delay=sp["efd"], folding_mode=sp["mode"], activation=sp["act"], name=f"f{i}_{j}")
        if sp["depthwise"]:
          l = QDepthwiseConv2DBatchnorm((sp["k"],) * 2, depth_multiplier=sp["dm"], depthwise_quantizer=sp["kq"], **kw)
        else:
          l = QConv2DBatchnorm(sp["co"], (sp["k"],) * 2, kernel_quantizer=sp["kq"], **kw)
        x = l(x)
        lyrs.append(l)
      m = keras.Model(inp, x, name=f"fm{i}")
      m(np.zeros((1, 8, 8, ci), dtype="float32"), training=False)   # the first eager call builds the batch-norm sub-layers
      # random weights and batch-norm statistics
      for l, sp in zip(lyrs, spec):
        kvar = l.depthwise_kernel if sp["depthwise"] else l.kernel
        kvar.assign(rng.normal(0, 1, size=kvar.shape).astype("float32"))
        if sp["use_bias"]:
          l.bias.assign(rng.normal(0, 1, size=l.bias.shape).astype("float32"))
        bn = l.batchnorm
        c = bn.moving_mean.shape[0]
        if bn.gamma is not None:
          bn.gamma.assign(rng.uniform(0.5, 1.5, size=c).astype("float32"))
        if bn.beta is not None:
          bn.beta.assign(rng.normal(0, 1, size=c).astype("float32"))
        bn.moving_mean.assign(rng.normal(0, 1, size=c).astype("float32"))
        v = rng.uniform(0.05, 2.0, size=c).astype("float32")
        if rng.integers(0, 5) == 0:
          v[0] = 4e-3
        bn.moving_variance.assign(v)
      xin = rng.normal(0, 1, size=(2, 8, 8, ci)).astype("float32")
      # ---- every layer alone: inference call vs conv -> batch norm, folded weights vs the documented formulas
      cur = tf.constant(xin)
      for l, sp in zip(lyrs, spec):
        y = l(cur, training=False).numpy()
        bn = l.batchnorm
        c = bn.moving_mean.shape[0]
        g = bn.gamma.numpy().astype(np.float64) if bn.gamma is not None else np.ones(c)
        be = bn.beta.numpy().astype(np.float64) if bn.beta is not None else np.zeros(c)
        mu, var = bn.moving_mean.numpy().astype(np.float64), bn.moving_variance.numpy().astype(np.float64)
        inv = g / np.sqrt(var + sp["eps"])
        b = l.bias.numpy().astype(np.float64) if sp["use_bias"] else np.zeros(c)
        kern = (l.depthwise_kernel if sp["depthwise"] else l.kernel).numpy()
        s_, pad = sp["strides"], sp["padding"].upper()
        if sp["depthwise"]:
          conv = lambda k, t=cur: tf.nn.depthwise_conv2d(t, tf.constant(k, dtype=tf.float32), [1, s_, s_, 1], pad)
          want_fk = kern.astype(np.float64) * inv.reshape(kern.shape[2], kern.shape[3])
        else:
          conv = lambda k, t=cur: tf.nn.conv2d(t, tf.constant(k, dtype=tf.float32), s_, pad)
          want_fk = kern.astype(np.float64) * inv
        want_fb = (b - mu) * inv + be
        fw = [np.asarray(a) for a in l.get_folded_weights()]
        fk, fb = fw[0], fw[1]
        okw = (np.allclose(fk, want_fk, rtol=2e-4, atol=1e-5 * (1 + np.abs(want_fk).max())) and
               np.allclose(fb, want_fb, rtol=2e-4, atol=1e-5 * (1 + np.abs(want_fb).max())))
        if not okw:
          rep.violation(f"real-folded-weights-{i}-{l.name}", f"{sp}: get_folded_weights of the built layer differs from kernel*gamma/sqrt(var+eps), "
                        f"(bias-mean)*gamma/sqrt(var+eps)+beta (max diff kernel {float(np.abs(fk - want_fk).max()):.3g}, bias {float(np.abs(fb - want_fb).max()):.3g})",
                        {"layer": sp})
        qk_ = get_quantizer(sp["kq"]) if sp["kq"] else (lambda t: t)
        qb_ = get_quantizer(sp["bq"]) if sp["bq"] else (lambda t: t)
        if sp["kq"] is None and sp["bq"] is None:
          ref = (conv(kern).numpy().astype(np.float64) + b - mu) * inv + be                    # conv followed by batch norm
        else:
          ref = (conv(qk_(tf.constant(fk))) + qb_(tf.constant(fb))).numpy().astype(np.float64)  # quantizers are discontinuous: use the layer's own folded weights
        if sp["act"]:
          ref = get_quantizer(sp["act"])(tf.constant(ref.astype("float32"))).numpy().astype(np.float64)
        tol = 2e-4 * (1 + np.abs(ref).max())
        # an activation quantizer can flip one code where the pre-activation sits on a rounding boundary
        bad = np.abs(y - ref) > tol
        if bad.mean() > (0.02 if sp["act"] else 0.0):
          rep.violation(f"real-fold-equiv-{i}-{l.name}", f"{sp}: the built folded layer at training=False differs from conv -> batch norm "
                        f"(max abs diff {float(np.abs(y - ref).max()):.4g} on {int(bad.sum())} of {bad.size} outputs)", {"layer": sp})
        else:
          n_layer += 1
        cur = tf.constant(y)
      # ---- unfold_model: plain quantized layers with the folded weights, same predictions at inference
      y_f = m(xin, training=False).numpy()
      with keras.utils.custom_object_scope(co):
        um = bfu.unfold_model(m)
      y_u = um(xin, training=False).numpy()
      kinds = [type(l).__name__ for l in um.layers[1:]]
      wantk = ["QDepthwiseConv2D" if sp["depthwise"] else "QConv2D" for sp in spec]
      if kinds != wantk:
        rep.violation(f"unfold-classes-{i}", f"unfold_model produced layers {kinds}, expected {wantk}", {"model": desc})
      bad = np.abs(y_f - y_u) > 1e-5 * (1 + np.abs(y_f).max())
      anyact = any(sp["act"] for sp in spec) or any(sp["kq"] or sp["bq"] for sp in spec)
      if bad.mean() > (0.02 if anyact else 0.0):
        rep.violation(f"unfold-equiv-{i}", f"{desc}: predictions of the folded model and of unfold_model(model) differ at inference "
                      f"(max abs diff {float(np.abs(y_f - y_u).max()):.4g} on {int(bad.sum())} of {bad.size} outputs)", {"model": desc})
      else:
        n_unfold += 1
      for lf, lu, sp in zip(lyrs, um.layers[1:], spec):
        fw = [np.asarray(a) for a in lf.get_folded_weights()]
        uw = lu.get_weights()
        if len(uw) != 2 or not (np.array_equal(uw[0], fw[0]) and np.array_equal(uw[1], fw[1])):
          rep.violation(f"unfold-weights-{i}-{lf.name}", f"{sp}: the unfolded layer does not carry the folded kernel and bias", {"layer": sp})
        if not lu.use_bias:
          rep.violation(f"unfold-bias-{i}-{lf.name}", f"{sp}: the unfolded layer has no bias although folding always produces one", {"layer": sp})
        uq = [str(q) if q is not None else None for q in lu.get_quantizers()]
        fq = [str(q) if q is not None else None for q in lf.get_quantizers()]
        if uq != fq:
          rep.violation(f"unfold-quantizers-{i}-{lf.name}", f"{sp}: quantizers of the unfolded layer {uq} differ from the folded layer's {fq}", {"layer": sp})
    except Exception as e:  # pylint: disable=broad-except
      import traceback
      rep.violation(f"real-raises-{i}", f"{desc}: {type(e).__name__}: {str(e)[:300]} @ {traceback.format_exc()[-300:]}", {"model": desc})
  rep.note(real_folded_layers_equal=n_layer, unfolded_models_equal=n_unfold, real_models=n)
  # ---- the converter: which convolutions are folded.  Folding replaces conv -> batch norm by one layer whose output is the NORMALISED
  # tensor, so it is only sound when the batch norm is the convolution's ONLY consumer.  convert_to_folded_model (real code, graph shims)
  # on branched Keras models; the expected fold list and the expected topology are computed from the model's own connectivity.
  import tensorflow.keras.layers as KL
  from tensorflow.keras import Model as KModel, Input as KInput
  from qkeras.utils import convert_to_folded_model

  def consumers(model):
    cons = {l.name: [] for l in model.layers}

    def walk(o, dst):
      if isinstance(o, dict):
        if "keras_history" in o.get("config", {}):
          cons[o["config"]["keras_history"][0]].append(dst)
        for v in o.values():
          walk(v, dst)
      elif isinstance(o, (list, tuple)):
        for v in o:
          walk(v, dst)
    for lc in model.get_config()["layers"]:
      walk(lc.get("inbound_nodes", []), lc["name"])
    return cons
  n_conv = n_conv_ok = 0
  for ti in range(8 if rep.tier == "quick" else 40):
    topo = ["sequential", "skip_before_bn", "parallel", "conv_is_also_output", "skip_after_bn", "depthwise_skip_before_bn", "bn_without_conv", "two_consumers_one_bn"][ti % 8]
    i_ = KInput((6, 6, 2), name=f"ci{ti}")
    mk = lambda n_: KL.Conv2D(2, int(rng.integers(1, 4)), padding="same", name=n_)
    outs = None
    if topo == "sequential":
      x_ = KL.BatchNormalization(name=f"bn{ti}_a")(mk(f"conv{ti}_a")(i_))
      x_ = KL.BatchNormalization(name=f"bn{ti}_b")(mk(f"conv{ti}_b")(x_))
    elif topo == "skip_before_bn":
      a_ = mk(f"conv{ti}_a")(i_)
      x_ = KL.BatchNormalization(name=f"bn{ti}_b")(mk(f"conv{ti}_b")(KL.BatchNormalization(name=f"bn{ti}_a")(a_)))
      x_ = KL.Add(name=f"add{ti}")([a_, x_])
    elif topo == "parallel":
      x_ = KL.Add(name=f"add{ti}")([KL.BatchNormalization(name=f"bn{ti}_a")(mk(f"conv{ti}_a")(i_)), KL.BatchNormalization(name=f"bn{ti}_b")(mk(f"conv{ti}_b")(i_))])
    elif topo == "conv_is_also_output":
      a_ = mk(f"conv{ti}_a")(i_)
      x_ = KL.BatchNormalization(name=f"bn{ti}_a")(a_)
      outs = [x_, a_]
    elif topo == "skip_after_bn":
      a_ = KL.BatchNormalization(name=f"bn{ti}_a")(mk(f"conv{ti}_a")(i_))
      x_ = KL.Add(name=f"add{ti}")([a_, KL.BatchNormalization(name=f"bn{ti}_b")(mk(f"conv{ti}_b")(a_))])
    elif topo == "depthwise_skip_before_bn":
      a_ = KL.DepthwiseConv2D(3, padding="same", name=f"dw{ti}_a")(i_)
      x_ = KL.Multiply(name=f"mul{ti}")([a_, KL.BatchNormalization(name=f"bn{ti}_a")(a_)])
    elif topo == "bn_without_conv":
      x_ = KL.BatchNormalization(name=f"bn{ti}_a")(KL.Activation("relu", name=f"act{ti}")(mk(f"conv{ti}_a")(i_)))
    else:
      a_ = mk(f"conv{ti}_a")(i_)
      x_ = KL.Concatenate(name=f"cat{ti}")([KL.BatchNormalization(name=f"bn{ti}_a")(a_), KL.Activation("tanh", name=f"act{ti}")(a_)])
    km = KModel(i_, outs if outs is not None else x_, name=f"km{ti}")
    cons = consumers(km)
    outnames = {t_._keras_history.operation.name if hasattr(t_._keras_history, "operation") else t_._keras_history[0].name for t_ in km.outputs}
    kinds_ = {l.name: type(l).__name__ for l in km.layers}
    want_fold = sorted(n_ for n_, k_ in kinds_.items() if k_ in ("Conv2D", "DepthwiseConv2D") and len(cons[n_]) == 1 and kinds_[cons[n_][0]] == "BatchNormalization" and n_ not in outnames)
    try:
      nm_, ltf_ = convert_to_folded_model(km)
    except Exception as e:  # pylint: disable=broad-except
      rep.violation(f"convert-to-folded-raises-{ti}", f"convert_to_folded_model on the {topo} model raised {type(e).__name__}: {str(e)[:200]}", {"topology": topo})
      continue
    n_conv += 1
    removed = sorted(set(kinds_) - {l.name for l in nm_.layers})
    want_removed = sorted(cons[n_][0] for n_ in want_fold)
    if topo == "conv_is_also_output" and sorted(ltf_) == [f"conv{ti}_a"] and len(nm_.outputs) < len(km.outputs):
      rep.finding("C15-convert-to-folded-model-ignores-intermediate-outputs", f"convert_to_folded_model on a model whose convolution output is also a model output folds {ltf_} and "
                  f"returns a model with {len(nm_.outputs)} outputs instead of {len(km.outputs)}", {"topology": topo})
    elif sorted(ltf_) != want_fold or removed != want_removed:
      rep.violation(f"convert-to-folded-{ti}", f"convert_to_folded_model on the {topo} model folds {sorted(ltf_)} and removes {removed}; a convolution may only be folded when its "
                    f"batch normalisation is its ONLY consumer: expected {want_fold}, removing {want_removed} (consumers: { {k_: v_ for k_, v_ in cons.items() if 'conv' in k_ or 'dw' in k_} })",
                    {"topology": topo})
    else:
      n_conv_ok += 1
  rep.note(convert_to_folded_models=n_conv, fold_lists_as_expected=n_conv_ok)


def main():
  rep = vlib.Report(PROP, "proof")
  from translate import foldgen
  fgen = foldgen.emit(vlib.GEN)
  info = vlib.build_obligations(PROP, gen_files=[fgen], extra_files=[os.path.join(vlib.COQ, "theories", "Link", "FoldLink.v")])
  errs = rep.obligations(info, "python3 tools/translate/foldgen.py coq/gen && coqc coq/gen/FoldGen.v && coqc coq/theories/Link/FoldLink.v && coqc coq/theories/Properties/C15.v")
  for e in errs:
    rep.violation("obligation-" + os.path.basename(e["file"]), "proof obligation no longer checks: " + e["error"][-400:],
                  {"file": e["file"]}, no_input=True)
  from qkeras.qconv2d_batchnorm import QConv2DBatchnorm
  from qkeras.qdepthwiseconv2d_batchnorm import QDepthwiseConv2DBatchnorm
  from qkeras.quantizers import get_quantizer
  import qkeras
  rng = np.random.default_rng(vlib.SEED)
  rep.cov["rule"] = ("QConv2DBatchnorm.call / QDepthwiseConv2DBatchnorm.call and both get_folded_weights run as unbound methods on a stand-in "
                     "self (Keras-2 style batch-norm attributes) at training=False x folding mode x use_bias x center/scale x strides / padding / "
                     "dilation x BN statistics (incl. gamma = 0, variance 1e-8) x kernel/bias quantizers, against conv -> batch-norm computed "
                     "with TensorFlow ops. distinct = distinct (class, geometry, statistics, quantizers)")
  n = 60 if rep.tier == "quick" else 1000
  n_ok = 0
  sample = None
  for i in range(n):
    depthwise = bool(i % 2)
    mode = ["ema_stats_folding", "batch_stats_folding"][int(rng.integers(0, 2))]
    use_bias = bool(rng.integers(0, 2))
    scale = bool(rng.integers(0, 4) > 0)
    center = bool(rng.integers(0, 4) > 0)
    s = int(rng.integers(1, 3))
    d = 1 if s > 1 else int(rng.integers(1, 3))
    pad = ["valid", "same"][int(rng.integers(0, 2))]
    ci, co = int(rng.integers(1, 4)), int(rng.integers(1, 5))
    kq = [None, None, "quantized_bits(8,2,1)", "quantized_bits(4,0,1,alpha=1.0)", "quantized_po2(6)"][int(rng.integers(0, 5))]
    bq = [None, None, "quantized_bits(8,3,1)"][int(rng.integers(0, 3))]
    tiny, zg = bool(rng.integers(0, 6) == 0), bool(rng.integers(0, 6) == 0)
    pick_efd = [None, None, 0, 100, -1, 5][int(rng.integers(0, 6))]
    it0 = int([-1, -1, 0, 3, 1000][int(rng.integers(0, 5))])
    desc = dict(depthwise=depthwise, mode=mode, use_bias=use_bias, scale=scale, center=center, strides=s, dilation=d, padding=pad,
                ci=ci, co=co, kq=kq, bq=bq, tiny_variance=tiny, zero_gamma=zg, ema_freeze_delay=pick_efd, iteration=it0)
    rep.count(tuple(sorted((k, str(v)) for k, v in desc.items())))
    if sample is None:
      sample = desc
    try:
      fs = FakeSelf()
      dm = int(rng.integers(1, 3)) if depthwise else 1
      desc["depth_multiplier"] = dm
      cout = ci * dm if depthwise else co
      fs.batchnorm = FakeBN(cout, rng, center=center, scale=scale, tiny_var=tiny, zero_gamma=zg and scale)
      # inference must use the moving statistics whatever the freeze delay / iteration counter say
      fs.ema_freeze_delay = pick_efd
      fs.use_bias = use_bias
      fs.bias = tf.constant(rng.normal(0, 1, size=cout).astype("float32")) if use_bias else None
      fs.strides, fs.padding, fs.data_format, fs.dilation_rate = (s, s), pad, "channels_last", (d, d)
      fs._iteration = tf.Variable(it0, dtype=tf.int64)
      fs.folding_mode = mode
      fs.bias_quantizer = bq
      fs.bias_quantizer_internal = get_quantizer(bq) if bq else None
      fs.activation = None
      x = tf.constant(rng.normal(0, 1, size=(2, 7, 7, ci)).astype("float32"))
      if depthwise:
        fs.depthwise_kernel = tf.constant(rng.normal(0, 1, size=(3, 3, ci, dm)).astype("float32"))
        fs.depth_multiplier = dm
        fs.depthwise_quantizer = kq
        fs.depthwise_quantizer_internal = get_quantizer(kq) if kq else None
        y = QDepthwiseConv2DBatchnorm.call(fs, x, training=False).numpy()
        fk, fb = [np.asarray(a) for a in QDepthwiseConv2DBatchnorm.get_folded_weights(fs)]
        kern = fs.depthwise_kernel
        conv = lambda k: tf.nn.depthwise_conv2d(x, k, [1, s, s, 1], pad.upper(), dilations=[d, d])
      else:
        fs.kernel = tf.constant(rng.normal(0, 1, size=(3, 3, ci, co)).astype("float32"))
        fs.kernel_quantizer = kq
        fs.kernel_quantizer_internal = get_quantizer(kq) if kq else None
        y = QConv2DBatchnorm.call(fs, x, training=False).numpy()
        fk, fb = [np.asarray(a) for a in QConv2DBatchnorm.get_folded_weights(fs)]
        kern = fs.kernel
        conv = lambda k: tf.nn.conv2d(x, k, s, pad.upper(), dilations=d)
      bn = fs.batchnorm
      g = bn.gamma if bn.gamma is not None else tf.ones_like(bn.moving_mean)
      b = fs.bias if use_bias else 0.0
      r = 1.0 / tf.sqrt(bn.moving_variance + bn.epsilon)
      # documented formulas for the folded weights
      inv = g * r
      want_fb = ((b - bn.moving_mean) * inv + bn.beta_ref).numpy()
      want_fk = (kern * (tf.reshape(inv, (ci, dm)) if depthwise else inv)).numpy()    # output channel c*dm + m <-> kernel[:, :, c, m]
      tolw = 1e-5 * (1.0 + float(np.max(np.abs(want_fk))))
      if not (np.allclose(fk, want_fk, rtol=1e-4, atol=tolw) and np.allclose(fb, want_fb, rtol=1e-4, atol=1e-5 * (1 + float(np.max(np.abs(want_fb)))))):
        rep.violation(f"folded-weights-{i}", f"{desc}: get_folded_weights differs from kernel*gamma/sqrt(var+eps), (bias-mean)*gamma/sqrt(var+eps)+beta",
                      {"layer": desc})
        continue
      qk_ = get_quantizer(kq) if kq else (lambda t: t)
      qb_ = get_quantizer(bq) if bq else (lambda t: t)
      if kq is None and bq is None:
        ref = (g * r * (conv(kern) + b - bn.moving_mean) + bn.beta_ref).numpy()      # conv followed by batch norm
      else:
        ref = (conv(qk_(tf.constant(want_fk))) + qb_(tf.constant(want_fb))).numpy()   # conv with quantized folded weights
      scale_ref = 1.0 + float(np.max(np.abs(ref)))
      # quantizers are discontinuous: a 1e-6 perturbation of a folded weight can flip a code, so with quantizers
      # compare against the layer's own folded weights
      if kq is not None or bq is not None:
        ref = (conv(qk_(tf.constant(fk))) + qb_(tf.constant(fb))).numpy()
      if not np.allclose(y, ref, rtol=2e-4, atol=2e-5 * scale_ref):
        rep.violation(f"fold-equiv-{i}", f"{desc}: folded layer output differs from the reference (max abs diff {float(np.max(np.abs(y - ref)))})",
                      {"layer": desc})
      else:
        n_ok += 1
    except Exception as e:  # pylint: disable=broad-except
      rep.violation(f"raises-{i}", f"{desc}: {type(e).__name__}: {str(e)[:300]}", {"layer": desc})
  rep.note(folded_layers=n, equal_to_reference=n_ok)
  rep.sample(sample)
  # the public entry points need the Keras-2 BatchNormalization internals / the graph helper
  try:
    qkeras.QConv2DBatchnorm(2, 3)
  except Exception as e:  # pylint: disable=broad-except
    rep.finding("C15-folded-layer-classes-do-not-build-under-keras3", f"QConv2DBatchnorm(2, 3) raises {type(e).__name__}: {str(e)[:140]}", {})
  try:
    import tensorflow.keras.layers as L
    from tensorflow.keras import Sequential, Input
    from qkeras.utils import convert_to_folded_model
    m = Sequential([Input((6, 6, 2)), L.Conv2D(2, 3, name="c"), L.BatchNormalization(name="bn")])
    convert_to_folded_model(m)
  except Exception as e:  # pylint: disable=broad-except
    rep.finding("C15-convert-to-folded-model-needs-keras2-graph", f"convert_to_folded_model raises {type(e).__name__}: {str(e)[:140]}", {})
  real_layers(rep, rng)
  rep.assumptions += ["convolution is homogeneous in the kernel (bilinearity) -- a Section hypothesis of the theorems; rsqrt is an oracle",
                      "real folded layers: built with a Keras-2 style BatchNormalization stand-in installed in the `layers` namespace of the two qkeras "
                      "modules (harness/env.py install_keras2_batchnorm_standin: bookkeeping of four weights and epsilon only) and the Keras-2 accessor "
                      "Variable.get_shape(); build, call, get_folded_weights, unfold_model and convert_folded_layer_to_unfolded are /repo's code, "
                      "unfold_model under the graph accessor shims and a custom_object_scope",
                      "the folded layers are driven through their unbound call / get_folded_weights on a stand-in self with Keras-2 style batch-norm "
                      "attributes (the classes themselves do not build under the pinned Keras 3: known finding); tolerance 2e-4 relative "
                      "(rsqrt vs sqrt/divide, summation order)",
                      "unfold_model / convert_to_folded_model need the Keras-2 graph helper (known finding); their algebra is the unfold theorem"]
  return rep.finish(vlib.TRUSTED_COMMON + ["translator tools/translate/foldgen.py regenerates coq/gen/FoldGen.v (get_folded_weights of both folded classes); Link/FoldLink.v proves it equal to BN/Fold.v; the call bodies and the graph conversion are tied by correspondence",
                                          "model BN/Fold.v is hand-written; tie = comparison with the unbound call on every generated case"])


if __name__ == "__main__":
  sys.exit(main())

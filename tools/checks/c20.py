"""C20 -- AutoQKeras trials respect the search limits and score smaller models higher."""
import importlib
import itertools
import os
import re
import sys
from fractions import Fraction

sys.path.insert(0, os.path.dirname(os.path.dirname(os.path.abspath(__file__))))
import vlib  # noqa: E402
from harness import env  # noqa: E402
import numpy as np  # noqa: E402

PROP = "C20"
tf = env.tf
HEADER = ("From Coq Require Import String List ZArith QArith Bool.\n"
          "From QV Require Import AutoQ.Search AutoQ.Forgiving AutoQ.Size.\n"
          "Import ListNotations.\nOpen Scope string_scope.\n")


def cstr(s):
  return '"' + str(s).replace('"', '""') + '"'


def clist(xs):
  return "[" + "; ".join(xs) + "]"


def pick(rng, l):
  return l[int(rng.integers(0, len(l)))]


CUSTOM_CFG = {
    "kernel": {"binary": 1, "ternary": 2, "quantized_bits(4,0,1)": 4, "quantized_bits(8,0,1)": 8},
    "bias": {"quantized_bits(4,0,1)": 4, "quantized_bits(8,3,1)": 8},
    "activation": {"binary": 1, "quantized_relu(3,1)": 3, "quantized_relu(4,2)": 4, "quantized_relu(8,2)": 8},
    "linear": {"binary": 1, "quantized_bits(4,1)": 4, "quantized_bits(8,2)": 8},
}


def gen_reference(rng, idx):
  import tensorflow.keras.layers as L
  from tensorflow.keras import Model, Input
  kind = int(rng.integers(0, 3))
  acts = [None, "relu", "linear", "tanh", "relu"]
  names = iter([f"conv_a{idx}", f"conv_b{idx}", f"blk1_x{idx}", f"blk1_y{idx}", f"dense_mid{idx}", f"kernel_proj{idx}", f"head{idx}"])
  rng.shuffle(l := list(names))
  names = iter(l)
  uniq = iter(range(10 ** 6))          # unique suffixes for the unnamed helper layers
  if kind == 0:
    inp = Input((6,), name=f"in{idx}")
    x = inp
  elif kind == 1:
    inp = Input((8, 8, 2), name=f"in{idx}")
    x = inp
    for _ in range(int(rng.integers(1, 3))):
      t = int(rng.integers(0, 5))
      if t == 4:
        # separable convolutions: the conversion itself is a C12 known finding, but the dictionary handed to model_quantize is observable
        x = L.SeparableConv2D(int(rng.integers(1, 4)), 3, padding="same", activation=pick(rng, acts), use_bias=bool(rng.integers(0, 3)), name=next(names))(x)
      elif t <= 1:
        x = L.Conv2D(int(rng.integers(1, 4)), 3, padding="same", activation=pick(rng, acts), use_bias=bool(rng.integers(0, 3)), name=next(names))(x)
      elif t == 2:
        x = L.DepthwiseConv2D(3, padding="same", activation=pick(rng, acts), use_bias=bool(rng.integers(0, 3)), name=next(names))(x)
      else:
        x = L.BatchNormalization(name=f"bn{idx}_{next(uniq)}")(x)
      if rng.integers(0, 2):
        x = L.Activation(pick(rng, ["relu", "linear", "tanh"]), name=f"act{idx}_{next(uniq)}")(x)
    x = L.Flatten(name=f"flat{idx}")(x)
  else:
    inp = Input((10, 2), name=f"in{idx}")
    x = L.Conv1D(int(rng.integers(1, 4)), 3, activation=pick(rng, acts), use_bias=bool(rng.integers(0, 3)), name=next(names))(inp)
    x = L.Flatten(name=f"flat{idx}")(x)
  for _ in range(int(rng.integers(1, 3))):
    x = L.Dense(int(rng.integers(2, 5)), activation=pick(rng, acts), use_bias=bool(rng.integers(0, 3)), name=next(names))(x)
    if rng.integers(0, 3) == 0:
      x = L.Activation(pick(rng, ["relu", "linear"]), name=f"act{idx}_{next(uniq)}")(x)
  x = L.Dense(3, name=f"out{idx}")(x)
  x = L.Activation("softmax", name=f"softmax{idx}")(x)
  return Model(inp, x, name=f"ref{idx}")


def gen_limit(rng, model, cfg):
  lim = {}
  classes = sorted({type(l).__name__ for l in model.layers})

  def slotv(field):
    r = int(rng.integers(0, 6))
    if r == 0:
      keys = list(cfg[field].keys())
      k = int(rng.integers(1, len(keys) + 1))
      return [keys[j] for j in sorted(rng.choice(len(keys), size=k, replace=False))]
    return int(pick(rng, [1, 2, 3, 4, 8, 16]))
  # name patterns first or last (the order of the dictionary matters: first match wins)
  pats = []
  if rng.integers(0, 2):
    pats.append("^conv_.*")
  if rng.integers(0, 2):
    pats.append("^blk1_")
  if rng.integers(0, 3) == 0:
    pats.append(".*_mid.*")
  if rng.integers(0, 4) == 0:
    pats.append("^act")
  order = int(rng.integers(0, 2))
  entries = []
  for p in pats:
    entries.append((p, [slotv("kernel"), slotv("bias"), slotv("activation")][:int(rng.integers(1, 4))] if not p.startswith("^act") else [slotv("activation")]))
  cls = []
  for c in classes:
    if c in ("Dense", "Conv2D", "Conv1D", "DepthwiseConv2D", "SeparableConv2D") and rng.integers(0, 4) > 0:
      cls.append((c, [slotv("kernel"), slotv("bias"), slotv("activation")][:int(rng.integers(1, 4))]))
    elif c == "Activation" and rng.integers(0, 3) > 0:
      cls.append((c, [slotv("activation")]))
    elif c == "BatchNormalization" and rng.integers(0, 2):
      cls.append((c, []))
  for k, v in (entries + cls if order else cls + entries):
    lim[k] = v
  r = int(rng.integers(0, 6))
  if r in (0, 1):
    lim["default"] = int(pick(rng, [4, 8]))
  elif r == 2:
    lim["default"] = [slotv("kernel"), slotv("bias"), slotv("activation")]
  elif r == 3:
    # the 4-element form [kernel, bias, recurrent kernel, activation]; the recurrent entry differs from the activation entry
    a = int(pick(rng, [2, 3, 4]))
    lim["default"] = [slotv("kernel"), slotv("bias"), int(pick(rng, [8, 16])), a]
  return lim


class HP:
  """scripted tuner: Choice/Fixed pick values[table[name] % len(values)]"""

  def __init__(self, table):
    self.table, self.log = table, []

  def Choice(self, name, values, default=None):  # pylint: disable=invalid-name,unused-argument
    values = list(values)
    self.log.append((name, values))
    return values[self.table.get(name, 0) % len(values)]

  def Fixed(self, name, value):  # pylint: disable=invalid-name
    self.log.append((name, [value]))
    return value


def lim_lit(v):
  return f"LList {clist(cstr(x) for x in v)}" if isinstance(v, list) else f"LNum {vlib.zlit(int(v))}"


def act_kind(layer):
  a = getattr(layer, "activation", None)
  if a is None:
    return "ANone"
  n = a if isinstance(a, str) else getattr(a, "__name__", "other")
  return {"linear": "ALinear", "softmax": "ASoftmax"}.get(n, "AOther")


def render_qdict(qd):
  out = []
  for k, v in qd.items():
    if isinstance(v, dict):
      out.append(k + "={" + ";".join(f"{a}:{b}" for a, b in v.items()) + "}")
    else:
      out.append(f"{k}={v}")
  return out


def parse_strings(out):
  """each Eval prints `= ["a"; "b"]%string : list string` (possibly wrapped)"""
  res = []
  for chunk in re.split(r"^\s*=\s", out, flags=re.M)[1:]:
    body = chunk.rsplit(": list string", 1)[0]
    body = re.sub(r"\s*\n\s*", " ", body)
    res.append([s.replace('""', '"') for s in re.findall(r'"((?:[^"]|"")*)"', body)])
  return res


def main():
  rep = vlib.Report(PROP, "proof")
  from translate import limitgen
  gen = limitgen.emit(vlib.GEN)
  from translate import sizegen
  sgen = sizegen.emit(vlib.GEN)
  from translate import rolegen
  rgen = rolegen.emit(vlib.GEN)
  info = vlib.build_obligations(PROP, gen_files=[gen, sgen, rgen], extra_files=[os.path.join(vlib.COQ, "theories", "Link", "LimitLink.v"),
                                                                               os.path.join(vlib.COQ, "theories", "Link", "SizeLink.v"),
                                                                               os.path.join(vlib.COQ, "theories", "Link", "RoleLink.v")])
  errs = rep.obligations(info, "python3 tools/translate/limitgen.py coq/gen && coqc coq/gen/LimitGen.v && coqc coq/theories/Link/LimitLink.v && coqc coq/theories/Properties/C20.v")
  for e in errs:
    rep.violation("obligation-" + os.path.basename(e["file"]), "proof obligation no longer checks: " + e["error"][-400:],
                  {"file": e["file"]}, no_input=True)
  rng = np.random.default_rng(vlib.SEED)
  env.install_learning_phase()
  env.set_phase(0)
  try:
    importlib.import_module("qkeras.autoqkeras.autoqkeras_internal")
  except Exception as e:  # pylint: disable=broad-except
    rep.finding("C20-keras-tuner-does-not-import", f"import qkeras.autoqkeras raises {type(e).__name__}: {str(e)[:120]} (the installed keras-tuner 1.0.3 imports "
                "tensorflow.keras.layers.experimental, which the pinned TensorFlow no longer has); the harness registers an empty keras_tuner module: "
                "only the HyperModel base class name is needed by the code under check", {})
  env.install_keras_tuner()
  A = importlib.import_module("qkeras.autoqkeras.autoqkeras_internal")
  from qkeras.autoqkeras.forgiving_metrics import forgiving_factor
  from qkeras.autoqkeras.quantization_config import default_quantization_config
  from qkeras.quantizers import get_quantizer
  rep.cov["rule"] = ("reference models (Dense / Conv1D / Conv2D / DepthwiseConv2D / BatchNormalization / Activation / Flatten mixes, layer names that match "
                     "regex patterns or contain role words) x limit dictionaries (per class, per regex pattern in either dictionary order, numeric limits and "
                     "lists of allowed quantizers, short lists padded from 'default') x layer_indexes x default / custom quantization_config x hyper-parameter "
                     "assignments through a scripted tuner: ALL assignments when the space has <= 48 points, 6 sampled otherwise. The q_dict handed to "
                     "model_quantize is compared with the Coq select model and judged directly against the limits; forgiving factor over a "
                     "(delta_p, delta_n, rate, reference, trial) grid; size model on reference and trial models. distinct = distinct (model, limit, assignment)")
  n = 8 if rep.tier == "quick" else 120
  texts, items = [], []
  n_trials = n_exh = 0
  pad_texts, pad_items = [], []
  sample = None
  size_cases = []
  for i in range(n):
    try:
      ref = gen_reference(rng, i)
    except Exception as e:  # pylint: disable=broad-except
      rep.violation(f"build-{i}", f"reference model construction raised {type(e).__name__}: {str(e)[:300]}", {})
      continue
    cfg = default_quantization_config if rng.integers(0, 2) else CUSTOM_CFG
    limit = gen_limit(rng, ref, cfg)
    nl = len(ref.layers)
    r_ = 3 if i % 8 == 3 else int(rng.integers(0, 8))   # every eighth reference selects no layer
    # directed configurations, independent of the random choices above (a stratum must not depend on a coin that other draws can void)
    if i == 0:      # short per-class lists padded from a 4-element default whose recurrent entry differs from its activation entry
      limit = {"Dense": [4], "Conv2D": [4, 4], "Conv1D": [2], "DepthwiseConv2D": [], "Activation": [4], "default": [8, 8, 16, 3]}
      r_ = 0
    elif i == 1:    # select no layer at all
      limit = {"Dense": [4, 4, 4], "Conv2D": [4, 4, 4], "Conv1D": [4, 4, 4], "DepthwiseConv2D": [4, 4, 4], "Activation": [4]}
      r_ = 3
    elif i in (3, 4):    # every class has an entry AND every layer name matches a pattern with a different limit: the pattern decides
      cls_ = {"Dense": [8, 8, 8], "Conv2D": [8, 8, 8], "Conv1D": [8, 8, 8], "DepthwiseConv2D": [8, 8, 8], "Activation": [8]}
      pat_ = {"^conv_": [2, 4, 3], "^blk1_": [2, 4, 3], ".*_mid": [1, 2, 3], "^kernel_proj": [2, 2, 2], "^head": [4, 4, 4], "^out": [2, 2, 2]}
      limit = {**cls_, **pat_} if i == 3 else {**pat_, **cls_}
      r_ = 0
    elif i == 2:    # a single selected layer, 3-element list default
      limit = {"Dense": [8], "Conv2D": [2], "Conv1D": [8, 2], "DepthwiseConv2D": [4], "Activation": [2], "default": [2, 4, 3]}
      r_ = 4
    if r_ < 3:
      idxs = None
    elif r_ == 3:
      idxs = []                     # select no layer at all
    elif r_ == 4:
      idxs = [int(rng.integers(0, nl))]
    else:
      idxs = sorted(int(j) for j in rng.choice(nl, size=max(1, nl - int(rng.integers(1, 3))), replace=False))
    tgt = forgiving_factor["bits"](8.0, 8.0, 2.0, stress=1.0, input_bits=8, output_bits=8, ref_bits=8, config={"default": ["parameters", "activations"]})
    try:
      import copy
      hm = A.AutoQKHyperModel(ref, metrics=["acc"], target=tgt, limit=copy.deepcopy(limit), tune_filters="none", tune_filters_exceptions="^$",
                              layer_indexes=idxs, quantization_config=cfg)
    except Exception as e:  # pylint: disable=broad-except
      rep.count(("ctor-raises", str(limit)))
      # _adjust_limit asserts on malformed limits: not a property violation, the constructor rejects the configuration
      continue
    adj = hm.limit
    # ---- _adjust_limit: every short per-class list is padded role by role from `default`
    dflt = limit.get("default")
    dl = [8, 8, 8] if dflt is None else (list(dflt) if isinstance(dflt, list) else [dflt] * 3)
    for cname in A.REGISTERED_LAYERS:
      if cname not in limit:
        continue
      given = list(limit[cname])
      seq = cname in A.SEQUENCE_LAYERS
      roles = ["kernel", "bias", "recurrent", "activation"] if seq else ["kernel", "bias", "activation"]
      by_role = {"kernel": dl[0], "bias": dl[1], "activation": dl[-1], "recurrent": dl[2] if len(dl) == 4 else None}
      want = given + [by_role[r_] for r_ in roles[len(given):]]
      rep.count(("adjust", cname, str(given), str(dflt)))
      if adj.get(cname) != want:
        rep.violation(f"limit-padding-{i}-{cname}", f"limit[{cname!r}] = {given} with default {dflt!r} became {adj.get(cname)}; padded role by role "
                      f"({roles}) it is {want}", {"limit": str(limit), "adjusted": str(adj)})
      # the polymorphic Coq pad_limit on slot identifiers
      ids = {}
      sid = lambda v: ids.setdefault(repr(v), len(ids) + 1)
      pad_texts.append(f"gen_pad_limit {vlib.blit(seq)} {clist(vlib.zlit(sid(v)) for v in dl)} {clist(vlib.zlit(sid(v)) for v in given)}")
      pad_items.append((i, cname, given, dflt, [sid(v) for v in (adj.get(cname) or [])]))
    layers = [(l.name, type(l).__name__, bool(getattr(l, "use_bias", False)), act_kind(l)) for l in ref.layers]
    pats = list(adj.keys())
    table = [(p, nme) for p in pats for (nme, _, _, _) in layers if re.match(p, nme)]
    lims_lit = clist(f"({cstr(k)}, {clist(lim_lit(v) for v in (vv if isinstance(vv, list) else [vv]))})" for k, vv in adj.items())
    cfg_lit = clist(f"({cstr(f)}, {clist(f'({cstr(q)}, {vlib.zlit(int(b))})' for q, b in d.items())})" for f, d in cfg.items())
    layers_lit = clist(f"Ly {cstr(a)} {cstr(b)} {vlib.blit(c)} {d}" for a, b, c, d in layers)
    idx_lit = "None" if idxs is None else f"(Some {clist(str(j) + '%nat' for j in idxs)})"
    rm_lit = (f"(fun p n => existsb (fun t => String.eqb (fst t) p && String.eqb (snd t) n) {clist(f'({cstr(a)}, {cstr(b)})' for a, b in table)})")
    cap = {}
    orig_mq = A.model_quantize

    def mq(model, qd, ab, **kw):
      cap["q"] = {k: (dict(v) if isinstance(v, dict) else v) for k, v in qd.items()}
      return orig_mq(model, qd, ab, **kw)
    A.model_quantize = mq

    def run_trial(tab):
      hm.groups = {}
      hp = HP(tab)
      cap.clear()
      qm = err = None
      try:
        qm, _ = hm.quantize_model(hp)
      except Exception as e:  # pylint: disable=broad-except
        err = e
      return hp, cap.get("q"), qm, err
    try:
      hp0, q0, qm0, err0 = run_trial({})
      names = []
      for nme, vals in hp0.log:
        if nme not in [a for a, _ in names]:
          names.append((nme, len(vals)))
      space = int(np.prod([k for _, k in names])) if names else 1
      if space <= 48:
        n_exh += 1
        assigns = [dict(zip([a for a, _ in names], t)) for t in itertools.product(*[range(k) for _, k in names])]
      else:
        assigns = [{}] + [{a: int(rng.integers(0, k)) for a, k in names} for _ in range(5)]
      for tab in assigns:
        hp, q, qm, err = run_trial(tab)
        n_trials += 1
        rep.count((ref.to_json(), str(adj), str(idxs), tuple(sorted(tab.items()))))
        if sample is None and q:
          sample = {"layers": layers, "limit": {k: v for k, v in adj.items()}, "layer_indexes": idxs, "assignment": tab, "q_dict": render_qdict(q)}
        got = ["<error>"] if q is None else render_qdict(q)
        ch_lit = (f"(fun name l => nth (Nat.modulo (match assoc name {clist(f'({cstr(a)}, {int(b)}%nat)' for a, b in tab.items())} with Some k => k | None => 0%nat end) "
                  f"(length l)) l \"\")")
        texts.append(f"render_select {lims_lit} {cfg_lit} {rm_lit} {ch_lit} {layers_lit} {idx_lit}")
        items.append((i, tab, got, layers, adj, idxs, None if err is None else f"{type(err).__name__}: {str(err)[:160]}"))
        if q is None:
          continue
        # ---- judged directly against the limits (independent of the Coq model)
        lname = {a: (b, c, d) for a, b, c, d in layers}
        for j, (nme, ent) in enumerate(q.items()):
          cls = lname[nme][0]
          pos = [k for k, l in enumerate(ref.layers) if l.name == nme][0]
          if idxs is not None and pos not in idxs:
            rep.violation(f"excluded-index-quantized-{i}-{nme}", f"layer {nme} (index {pos}) is outside layer_indexes {idxs} but received {ent}", {"limit": str(adj)})
          pat = next((p for p in pats if re.match(p, nme)), None)
          key = pat if pat is not None else cls
          if key not in adj:
            rep.violation(f"outside-limits-quantized-{i}-{nme}", f"layer {nme} ({cls}) matches no limit entry but received {ent}", {"limit": str(adj)})
            continue
          ents = ent.items() if isinstance(ent, dict) else [("activation", ent)]
          for role, qn in ents:
            if qn in (None, "None"):
              continue
            field = {"kernel_quantizer": "kernel", "depthwise_quantizer": "kernel", "pointwise_quantizer": "kernel", "bias_quantizer": "bias",
                     "activation": "activation", "activation_quantizer": "activation", "recurrent_quantizer": "kernel", "recurrent_activation": "activation"}[role]
            slot_i = {"kernel": 0, "bias": 1, "activation": -1}[field]
            is_lin = cls == "Activation" and lname[nme][2] == "ALinear"
            if is_lin:
              field, slot_i = "linear", 0
            try:
              lv = adj[key][slot_i]
            except IndexError:
              rep.violation(f"slot-undefined-{i}-{nme}-{role}", f"layer {nme} ({cls}, resolves to limit entry {key!r} = {adj[key]}) received {role} = {qn!r} although the entry "
                            f"defines no slot {slot_i}; assignment {tab}", {"limit": str(adj), "assignment": tab})
              continue
            okq = (qn in lv) if isinstance(lv, list) else (qn in cfg[field] and cfg[field][qn] <= lv)
            if not okq:
              what = (f"layer {nme} ({cls}, resolves to limit entry {key!r}) role {role}: quantizer {qn!r} is not allowed by slot {slot_i} = {lv} "
                      f"of {adj[key]} for configuration field {field!r}; assignment {tab}")
              if pat is not None and (is_lin or role in ("activation",) and cls != "Activation"):
                rep.finding("C20-group-slot-shared-across-roles", what + " (the pattern group stores one choice per slot index; roles sharing an index reuse it)", {"limit": str(adj)})
              else:
                rep.violation(f"over-limit-{i}-{nme}-{role}", what, {"limit": str(adj), "assignment": tab})
        # one choice per pattern group and slot
        for p in pats:
          members = [nme for nme, ent in q.items() if next((pp for pp in pats if re.match(pp, nme)), None) == p and isinstance(ent, dict)]
          for role in ("kernel_quantizer", "depthwise_quantizer", "bias_quantizer"):
            vals = {q[nme].get(role) for nme in members if q[nme].get(role) is not None}
            kv = {q[nme].get("kernel_quantizer") or q[nme].get("depthwise_quantizer") for nme in members} if role != "bias_quantizer" else vals
            if len(kv) > 1:
              rep.violation(f"group-not-shared-{i}-{p}-{role}", f"layers {members} match pattern {p!r} but received different {role}: {kv}", {"limit": str(adj)})
        # the architecture of the reference model, and the quantizers the TRIAL MODEL really carries
        if qm is not None:
          def sig(obj):
            return None if obj is None else (type(obj).__name__, int(getattr(obj, "bits", -1)))
          for nme, ent in q.items():
            if not isinstance(ent, dict) or not ent:
              continue
            try:
              lq = qm.get_layer(nme)
            except ValueError:
              continue
            if not hasattr(lq, "get_quantizers"):
              continue
            actual = {}
            qs_ = lq.get_quantizers()
            if "kernel_quantizer" in ent or "depthwise_quantizer" in ent:
              actual["kernel_quantizer" if "kernel_quantizer" in ent else "depthwise_quantizer"] = qs_[0]
            if "bias_quantizer" in ent:
              actual["bias_quantizer"] = qs_[-1]
            act_key = "activation_quantizer" if "activation_quantizer" in ent else ("activation" if "activation" in ent else None)
            if act_key:
              actual[act_key] = lq.activation if not callable(lq.activation) or hasattr(lq.activation, "bits") or type(lq.activation).__name__ in cfg["activation"] else lq.activation
            for role, chosen in ent.items():
              if role not in actual or chosen in (None, "None"):
                continue
              want_sig = sig(get_quantizer(chosen))
              got_obj = actual[role]
              got_sig = sig(got_obj) if not isinstance(got_obj, str) else sig(get_quantizer(got_obj))
              if type(got_obj).__name__ == "function":
                got_sig = ("function:" + got_obj.__name__, -1)
              if got_sig != want_sig:
                rep.violation(f"trial-quantizer-differs-{i}-{nme}-{role}", f"trial model layer {nme} ({type(lq).__name__}) role {role}: the tuner chose {chosen!r} "
                              f"{want_sig} but the built trial model carries {got_sig}; limit entry {adj.get(next((p for p in pats if re.match(p, nme)), type(ref.get_layer(nme)).__name__))}, "
                              f"assignment {tab}", {"limit": str(adj), "assignment": tab})

          if [l.name for l in qm.layers] != [l.name for l in ref.layers]:
            rep.violation(f"architecture-changed-{i}", f"trial layers {[l.name for l in qm.layers]} differ from reference {[l.name for l in ref.layers]}", {})
          for lr, lq in zip(ref.layers, qm.layers):
            if lr.name not in q and type(lq).__name__ != type(lr).__name__:
              rep.violation(f"unselected-layer-converted-{i}-{lr.name}", f"{lr.name}: not in the quantization dictionary but became {type(lq).__name__}", {})
          if len(size_cases) < (6 if rep.tier == "quick" else 60):
            size_cases.append((ref, qm, i, tab))
    finally:
      A.model_quantize = orig_mq
  # ---- filter scaling: tune_filters = "layer" / "block" with exception patterns (anchored and not anchored)
  n_ft = 0
  for fi in range(6 if rep.tier == "quick" else 60):
    try:
      fref = gen_reference(rng, 5000 + fi)
    except Exception:  # pylint: disable=broad-except
      continue
    mode = ["layer", "block"][fi % 2]
    exc = ["out", "_mid", "^$", "[0-9]$", "^conv_", "head", "x|y"][fi % 7]          # unanchored patterns first, in rotation
    flimit = {"Dense": [4, 4, 4], "Conv2D": [4, 4, 4], "Conv1D": [4, 4, 4], "DepthwiseConv2D": [4, 4, 4], "Activation": [4]}
    tgt = forgiving_factor["bits"](8.0, 8.0, 2.0, stress=1.0, config={"default": ["parameters", "activations"]})
    try:
      fhm = A.AutoQKHyperModel(fref, metrics=["acc"], target=tgt, limit={k: list(v) for k, v in flimit.items()}, tune_filters=mode,
                               tune_filters_exceptions=exc, quantization_config=CUSTOM_CFG)
    except Exception as e:  # pylint: disable=broad-except
      rep.violation(f"filter-ctor-{fi}", f"AutoQKHyperModel(tune_filters={mode!r}, tune_filters_exceptions={exc!r}) raised {type(e).__name__}: {str(e)[:160]}", {})
      continue
    capf = {}
    orig_mq = A.model_quantize

    def mqf(model, qd, ab, **kw):
      capf["sizes"] = {l.name: (getattr(l, "units", None) if type(l).__name__ == "Dense" else getattr(l, "filters", None)) for l in model.layers}
      raise RuntimeError("captured")
    A.model_quantize = mqf
    tunable = [l for l in fref.layers if type(l).__name__ in ("Dense", "Conv1D", "Conv2D") and not re.search(exc, l.name)]
    excepted = [l for l in fref.layers if type(l).__name__ in ("Dense", "Conv1D", "Conv2D") and re.search(exc, l.name)]
    try:
      for choice in (0, 3, 4):          # 0.5, 1.5, 2.0 of [0.5, 0.75, 1.0, 1.5, 2.0]
        fhm.groups = {}
        capf.clear()
        hp = HP({("network_filters_" + l.name): choice for l in fref.layers} | {"network_filters": choice})
        try:
          fhm.quantize_model(hp)
        except RuntimeError:
          pass
        n_ft += 1
        rep.count(("filters", fref.to_json(), mode, exc, choice))
        names_ = [a for a, _ in hp.log]
        fac = [0.5, 0.75, 1.0, 1.5, 2.0][choice]
        for l in excepted:
          hpname = "network_filters_" + l.name
          if hpname in names_:
            rep.violation(f"filter-hp-for-excepted-layer-{fi}-{l.name}", f"tune_filters={mode!r}, tune_filters_exceptions={exc!r}: layer {l.name} matches the exception "
                          f"pattern but the hyper-parameter {hpname} was created", {"pattern": exc})
          base = l.units if type(l).__name__ == "Dense" else l.filters
          got = (capf.get("sizes") or {}).get(l.name)
          if got is not None and got != base:
            rep.violation(f"excepted-layer-scaled-{fi}-{l.name}", f"tune_filters={mode!r}, tune_filters_exceptions={exc!r}, factor {fac}: excepted layer {l.name} has "
                          f"{got} units/filters in the trial, the reference has {base}", {"pattern": exc, "factor": fac})
        for l in tunable:
          base = l.units if type(l).__name__ == "Dense" else l.filters
          got = (capf.get("sizes") or {}).get(l.name)
          want = max(int(base * fac), 1)
          if got is not None and got != want:
            rep.violation(f"filter-scaling-{fi}-{l.name}", f"tune_filters={mode!r}, factor {fac}: layer {l.name} has {got} units/filters in the trial, "
                          f"expected max(int({base} * {fac}), 1) = {want}", {"factor": fac})
    finally:
      A.model_quantize = orig_mq
  rep.note(filter_scaling_trials=n_ft)
  # ---- directed: two separable layers under different limit entries (each must get ITS OWN pointwise choice)
  try:
    import tensorflow.keras.layers as L
    from tensorflow.keras import Model, Input
    i_ = Input((8, 8, 2), name="sep_in")
    x_ = L.SeparableConv2D(2, 3, padding="same", name="sep_small")(i_)
    x_ = L.SeparableConv2D(2, 3, padding="same", name="sep_big")(x_)
    sref = Model(i_, x_)
    tgt = forgiving_factor["bits"](8.0, 8.0, 2.0, stress=1.0, config={"default": ["parameters", "activations"]})
    slim = {"^sep_small": [2, 8, 8], "^sep_big": [8, 8, 8]}
    shm = A.AutoQKHyperModel(sref, metrics=["acc"], target=tgt, limit=dict(slim), tune_filters="none", tune_filters_exceptions="^$", quantization_config=CUSTOM_CFG)
    cap2 = {}
    orig_mq = A.model_quantize

    def mq2(model, qd, ab, **kw):
      cap2["q"] = {k: dict(v) if isinstance(v, dict) else v for k, v in qd.items()}
      raise RuntimeError("captured")
    A.model_quantize = mq2
    try:
      shm.quantize_model(HP({"^sep_big_kernel_quantizer": 3, "^sep_small_kernel_quantizer": 0}))
    except RuntimeError:
      pass
    finally:
      A.model_quantize = orig_mq
    rep.count(("directed-separable", str(cap2.get("q"))))
    qs_ = cap2.get("q", {})
    pw = qs_.get("sep_small", {}).get("pointwise_quantizer")
    if pw is not None and CUSTOM_CFG["kernel"].get(pw, 99) > 2:
      rep.violation("pointwise-of-first-separable-over-limit", f"limit {slim}: sep_small received pointwise_quantizer {pw!r} "
                    f"({CUSTOM_CFG['kernel'].get(pw)} bits, limit 2): the pointwise choice made for sep_big was applied to every separable layer; q_dict {qs_}",
                    {"limit": str(slim)})
  except Exception as e:  # pylint: disable=broad-except
    rep.violation("directed-separable-raises", f"directed separable case raised {type(e).__name__}: {str(e)[:200]}", {})
  # ---- directed: layer names that contain role words must not change the role that is looked up
  try:
    i_ = Input((6,), name="nm_in")
    x_ = L.Dense(4, activation="relu", name="kernel_proj")(i_)
    x_ = L.Dense(3, activation="relu", name="bias_mixer")(x_)
    nref = Model(i_, x_)
    tgt = forgiving_factor["bits"](8.0, 8.0, 2.0, stress=1.0, config={"default": ["parameters", "activations"]})
    nlim = {"Dense": [["ternary"], ["quantized_bits(8,3,1)"], ["quantized_relu(3,1)"]]}
    nhm = A.AutoQKHyperModel(nref, metrics=["acc"], target=tgt, limit={k: list(v) for k, v in nlim.items()}, tune_filters="none", tune_filters_exceptions="^$",
                             quantization_config=CUSTOM_CFG)
    cap3 = {}
    orig_mq = A.model_quantize

    def mq3(model, qd, ab, **kw):
      cap3["q"] = {k: dict(v) if isinstance(v, dict) else v for k, v in qd.items()}
      raise RuntimeError("captured")
    A.model_quantize = mq3
    err3 = None
    try:
      nhm.quantize_model(HP({}))
    except RuntimeError:
      pass
    except Exception as e:  # pylint: disable=broad-except
      err3 = e
    finally:
      A.model_quantize = orig_mq
    rep.count(("directed-names", str(cap3.get("q"))))
    want3 = {"kernel_quantizer": "ternary", "bias_quantizer": "quantized_bits(8,3,1)", "activation_quantizer": "quantized_relu(3,1)"}
    for ln_ in ("kernel_proj", "bias_mixer"):
      got3 = (cap3.get("q") or {}).get(ln_)
      if got3 != want3:
        rep.violation(f"role-depends-on-layer-name-{ln_}", f"limit {nlim} (one allowed quantizer per role): layer {ln_!r} received {got3} "
                      f"(exception: {err3}) instead of {want3}: the tensor role was not read from the suffix of the hyper-parameter head", {"limit": str(nlim)})
  except Exception as e:  # pylint: disable=broad-except
    rep.violation("directed-names-raises", f"directed layer-name case raised {type(e).__name__}: {str(e)[:200]}", {})
  # ---- forgiving factor on the implementation
  ff = forgiving_factor["bits"]
  n_delta = 0
  dtexts, ditems = [], []
  for dp, dn, rate in itertools.product([1.0, 8.0, 0.5], [1.0, 8.0, 2.0], [2.0, 4.0, 1.5]):
    t = ff(dp, dn, rate, stress=1.0)
    refs = [1000, 4136, 12345] if rep.tier == "quick" else [10, 1000, 4136, 12345, 10 ** 7]
    for refsz in refs:
      t.reference_size = float(refsz)
      trials = sorted({max(1, int(refsz * f)) for f in (0.01, 0.25, 0.5, 0.99, 1.0, 1.01, 1.5, 2.0, 7.3)} | {refsz - 1, refsz + 1})
      ds = []
      for ts in trials:
        t.trial_size = ts
        ds.append(float(t.delta()))
      n_delta += len(trials)
      rep.count(("delta", dp, dn, rate, refsz))
      for ts, d in zip(trials, ds):
        want = (ts < refsz) - (ts > refsz)
        if (d > 0) - (d < 0) != want or (ts == refsz and d != 0.0):
          rep.violation(f"delta-sign-{dp}-{dn}-{rate}-{refsz}-{ts}", f"ForgivingFactor(delta_p={dp}, delta_n={dn}, rate={rate}): reference {refsz}, trial {ts}: delta = {d}, "
                        f"expected sign {want}", {"delta_p": dp, "delta_n": dn, "rate": rate, "reference": refsz, "trial": ts})
      for (t1, d1), (t2, d2) in zip(zip(trials, ds), list(zip(trials, ds))[1:]):
        if not d2 < d1:
          rep.violation(f"delta-not-decreasing-{dp}-{dn}-{rate}-{refsz}-{t1}", f"ForgivingFactor(delta_p={dp}, delta_n={dn}, rate={rate}): reference {refsz}: delta({t1}) = {d1} "
                        f"is not above delta({t2}) = {d2}", {"reference": refsz, "trials": [t1, t2]})
      dtexts.append(f"map (fun t => delta_sign (Qmake {vlib.zlit(refsz)} 1) (Qmake t 1)) {clist(str(x) + '%Z' for x in trials)}")
      ditems.append(("sign", dp, dn, rate, refsz, [(ts < refsz) - (ts > refsz) for ts in trials], [(d > 0) - (d < 0) for d in ds]))
  # ---- size model
  stexts, sitems = [], []

  def slayer(l, t):
    cn = type(l).__name__
    out = int(np.prod(l.output.shape[1:]))
    ws = l.get_weights()
    kind, wl, act = "SOther", [], "SNone"

    def qact(a):
      if a is None:
        return "SNone"
      nme = a if isinstance(a, str) else getattr(a, "__name__", None)
      if nme == "linear":
        return "SLinear"
      if nme == "softmax":
        return "SSoftmax"
      if nme == "sigmoid":
        return "SSigmoid"
      obj = get_quantizer(a) if isinstance(a, str) else a
      return f"(SQuant {'(Some ' + vlib.zlit(int(obj.bits)) + ')' if hasattr(obj, 'bits') else 'None'})"
    if cn == "InputLayer":
      kind = "SInput"
    elif cn in ("Dense", "Conv2D", "Conv1D", "DepthwiseConv2D"):
      kind = "SPlain"
      wl = [(int(np.prod(w.shape)), None) for w in ws]
      a = l.activation
      act = "SNone" if a is None else ("SLinear" if a.__name__ == "linear" else "SPlainNonlinear")
    elif cn in ("QDense", "QConv2D", "QConv1D", "QDepthwiseConv2D"):
      kind = "SQuantized"
      qs = l.get_quantizers()
      wl = [(int(np.prod(w.shape)), int(qs[k].bits) if qs[k] else None) for k, w in enumerate(ws)]
      act = qact(l.activation)
      if act == "SSigmoid":
        act = "SPlainNonlinear" if not hasattr(l.activation, "bits") else act
    elif cn in ("QActivation", "Activation"):
      kind = "SActivation"
      act = qact(l.activation)
    elif cn == "BatchNormalization":
      kind = f"(SBatchNorm {vlib.blit(bool(l.center))})"
      wl = [(int(np.prod(w.shape)), None) for w in ws]
    wlit = clist(f"({vlib.zlit(a)}, {'None' if b is None else '(Some ' + vlib.zlit(b) + ')'})" for a, b in wl)
    return f"SL {kind} {wlit} {vlib.zlit(out)} {act} true true"
  # directed size models: every branch of _param_size / _act_size, with three DIFFERENT widths for inputs, outputs and the reference
  def directed_size_models():
    import tensorflow.keras.layers as L_
    from tensorflow.keras import Model as M_, Input as I_
    import qkeras as qk_
    out = []
    i_ = I_((6, 6, 2), name="szin")
    x_ = qk_.QConv2D(3, 2, kernel_quantizer="quantized_bits(4,0,1)", bias_quantizer=None, activation="relu", name="sz_qc")(i_)          # no bias quantizer, plain relu
    x_ = L_.BatchNormalization(center=False, name="sz_bn0")(x_)
    x_ = qk_.QDepthwiseConv2D(2, depthwise_quantizer="quantized_bits(3,0,1)", bias_quantizer="quantized_bits(5,2,1)", activation="quantized_relu(3,1)", name="sz_qdw")(x_)
    x_ = L_.BatchNormalization(scale=False, name="sz_bn1")(x_)
    x_ = qk_.QActivation("quantized_relu(5,2)", name="sz_qa")(x_)
    import qkeras.quantizers as qz_
    x_ = qk_.QActivation(qz_.quantized_relu(3, 1), name="sz_qa_obj")(x_)       # a quantizer OBJECT (no __name__): counted at its own width
    x_ = L_.Flatten(name="sz_fl")(x_)
    x_ = qk_.QDense(4, kernel_quantizer="ternary(alpha=1.0)", bias_quantizer="quantized_bits(6,2,1)", activation="softmax", name="sz_qd_softmax")(x_)
    # fused PLAIN activations on quantized layers: no quantizer is applied to the output, so it is counted at the reference width
    x_ = qk_.QDense(5, kernel_quantizer="quantized_bits(4,0,1)", bias_quantizer="quantized_bits(4,0,1)", activation="sigmoid", name="sz_qd_sigmoid")(x_)
    x_ = qk_.QDense(4, kernel_quantizer="quantized_bits(5,0,1)", use_bias=False, activation="tanh", name="sz_qd_tanh")(x_)
    x_ = L_.Dense(3, activation="tanh", name="sz_d")(x_)
    x_ = L_.Activation("sigmoid", name="sz_sig")(x_)
    x_ = qk_.QDense(2, kernel_quantizer="quantized_po2(4)", use_bias=False, name="sz_qd_lin")(x_)
    x_ = L_.Activation("softmax", name="sz_soft")(x_)
    out.append(M_(i_, x_, name="szm0"))
    i2 = I_((8, 3), name="szin1")
    y_ = L_.Conv1D(2, 3, activation="relu", name="sz_c1")(i2)
    y_ = qk_.QConv1D(2, 2, kernel_quantizer="binary(alpha=1.0)", bias_quantizer="quantized_bits(4,1,1)", activation="quantized_tanh(4)", name="sz_qc1")(y_)
    y_ = qk_.QConv1D(2, 1, kernel_quantizer="quantized_bits(4,0,1)", bias_quantizer=None, activation="sigmoid", name="sz_qc1_sigmoid")(y_)
    y_ = L_.Activation("linear", name="sz_lin")(y_)
    y_ = L_.Activation("relu", name="sz_relu")(y_)
    out.append(M_(i2, y_, name="szm1"))
    return out
  try:
    for k_, dm_ in enumerate(directed_size_models()):
      size_cases.append((dm_, None, 9000 + k_, {}, (6, 7, 9)))
  except Exception as e:  # pylint: disable=broad-except
    rep.violation("size-directed-build", f"directed size models could not be built: {type(e).__name__}: {str(e)[:300]}", {})
  for case in size_cases:
    ref, qm, i, tab = case[:4]
    wi, wo, wt = case[4] if len(case) > 4 else (8, 8, 8)
    for which, mdl in (("reference", ref), ("trial", qm)):
      if mdl is None:
        continue
      t = forgiving_factor["bits"](8.0, 8.0, 2.0, stress=1.0, input_bits=wi, output_bits=wo, ref_bits=wt, config={"default": ["parameters", "activations"]})
      try:
        total, p_, a_, d = t.compute_model_size(mdl)
      except Exception as e:  # pylint: disable=broad-except
        rep.violation(f"size-raises-{i}-{which}", f"compute_model_size raised {type(e).__name__}: {str(e)[:200]} on the {which} model", {})
        continue
      flat = [int(total)]
      for l in mdl.layers:
        flat += [int(d[l.name]["parameters"]), int(d[l.name]["activations"])]
      rep.count(("size", i, which, tuple(sorted(tab.items()))))
      stexts.append(f"sizes (W {wi} {wo} {wt}) {clist(slayer(l, t) for l in mdl.layers)}")
      sitems.append((i, which, flat, [(type(l).__name__, l.name) for l in mdl.layers]))
  # ---- Coq evaluation
  SH = 40
  shards = [(f"{PROP}_sel_{s // SH:03d}", HEADER + "".join(f"Eval vm_compute in {t}.\n" for t in texts[s:s + SH])) for s in range(0, len(texts), SH)]
  import concurrent.futures as cf

  def run(name_text):
    name, text = name_text
    path = os.path.join(vlib.CASES, name + ".v")
    with open(path, "w") as f:
      f.write(text)
    try:
      return vlib.coqc(path)
    finally:
      for ext in (".vo", ".vok", ".vos", ".glob", ".v"):
        try:
          os.remove(os.path.join(vlib.CASES, name + ext))
        except OSError:
          pass
      try:
        os.remove(os.path.join(vlib.CASES, "." + name + ".aux"))
      except OSError:
        pass
  sel = []
  with cf.ThreadPoolExecutor(max_workers=16) as ex:
    for out in ex.map(run, shards):
      sel += parse_strings(out)
  n_eq = 0
  for (i, tab, got, layers, adj, idxs, err), want in zip(items, sel):
    if got == want:
      n_eq += 1
      continue
    rep.violation(f"select-model-mismatch-{i}-{abs(hash(str(sorted(tab.items())))) % 10 ** 6}",
                  f"quantization dictionary handed to model_quantize {got} (exception: {err}) differs from the Coq select model {want}; layers {layers}, "
                  f"limit {adj}, layer_indexes {idxs}, assignment {tab}", {"assignment": tab, "limit": str(adj)}, no_input=True)
  douts = vlib.coq_eval_many([(f"{PROP}_delta", HEADER.replace("Open Scope string_scope.", "Open Scope Q_scope.") + "".join(f"Eval vm_compute in {t}.\n" for t in dtexts))])[f"{PROP}_delta"] if dtexts else []
  for (kind, dp, dn, rate, refsz, want, impl), got in zip(ditems, douts):
    if got != impl:
      rep.violation(f"delta-sign-model-{dp}-{dn}-{rate}-{refsz}", f"signs of delta on the implementation {impl} differ from the Coq sign model {got}", {"reference": refsz})
  souts = vlib.coq_eval_many([(f"{PROP}_size", HEADER.replace("Open Scope string_scope.", "Open Scope Z_scope.") + "".join(f"Eval vm_compute in {t}.\n" for t in stexts))])[f"{PROP}_size"] if stexts else []
  pouts = vlib.coq_eval(f"{PROP}_pad", "From Coq Require Import List ZArith Bool.\nFrom QV Require Import AutoQ.Limits.\nFrom QVGen Require Import LimitGen.\nImport ListNotations.\nOpen Scope Z_scope.\n" +
                        "".join(f"Eval vm_compute in {t}.\n" for t in pad_texts)) if pad_texts else []
  n_pad = 0
  for (i, cname, given, dflt, impl), got in zip(pad_items, pouts):
    if got != impl:
      rep.violation(f"limit-padding-model-{i}-{cname}", f"limit[{cname!r}] = {given} with default {dflt!r}: the adjusted list (slot ids {impl}) differs from the Coq pad_limit {got}",
                    {"given": str(given), "default": str(dflt)})
    else:
      n_pad += 1
  rep.note(adjusted_limit_lists=len(pad_items), equal_to_pad_limit=n_pad)
  n_size = 0
  for (i, which, flat, ls), got in zip(sitems, souts):
    if got != flat:
      j = next((k for k, (a, b) in enumerate(zip(flat, got)) if a != b), 0)
      lay = "total" if j == 0 else f"{ls[(j - 1) // 2]} {'parameters' if (j - 1) % 2 == 0 else 'activations'}"
      rep.violation(f"size-model-mismatch-{i}-{which}", f"compute_model_size on the {which} model: {lay} = {flat[j] if j < len(flat) else None}, "
                    f"elements x bits = {got[j] if j < len(got) else None}", {"layers": ls})
    else:
      n_size += 1
  rep.note(reference_models=n, trials=n_trials, exhaustively_enumerated_spaces=n_exh, q_dict_equal_to_model=n_eq, delta_points=n_delta, size_models=len(sitems), size_equal=n_size)
  if sample:
    rep.sample(sample)
  rep.assumptions += ["the installed keras_tuner does not import under the pinned TensorFlow: the harness registers an empty module so that `class AutoQKHyperModel(HyperModel)` can be defined; the tuner is a scripted "
                      "object whose Choice/Fixed return values[table[name] % len(values)]: every assignment the real tuner can make is one such table",
                      "re.match is an oracle: the harness passes the table of (pattern, layer name) matches to the Coq model",
                      "tune_filters is 'none' in the generated runs (filter scaling multiplies units / filters and does not touch quantizer selection)",
                      "Reals: the forgiving-factor theorems depend on the standard library's real-number axioms (ClassicalDedekindReals.sig_forall_dec, sig_not_dec, "
                      "FunctionalExtensionality.functional_extensionality_dep, Classical_Prop.classic), as Print Assumptions reports",
                      "recurrent and separable layers are not generated: their quantized counterparts do not build / convert under the pinned Keras 3 (C11, C12 findings)"]
  return rep.finish(vlib.TRUSTED_COMMON + ["translators tools/translate/{limitgen,sizegen,rolegen}.py regenerate coq/gen/{LimitGen,SizeGen,RoleGen}.v (_adjust_limit, _act_size, the role dispatch of _get_quantizer); the rest of _get_quantizer / quantize_model is tied by the captured q_dict",
                                          "models AutoQ/Search.v, Forgiving.v, Size.v are hand-written; tie = the q_dict captured at the model_quantize call, the signs "
                                          "and order of delta(), and compute_model_size compared with the Coq models on every generated case"])


if __name__ == "__main__":
  sys.exit(main())

"""C17 -- qtools accumulator and adder types can hold every sum they are sized for."""
import os
import sys

sys.path.insert(0, os.path.dirname(os.path.dirname(os.path.abspath(__file__))))
import vlib  # noqa: E402
from harness import env  # noqa: E402
import numpy as np  # noqa: E402
from checks import qtools_k as QK  # noqa: E402

PROP = "C17"


def classify_add(ad, bd):
  """known-finding id for an operand pair whose sum is not representable"""
  kinds = lambda d: ("po2" if "po2" in d else "tern" if "ternary" in d else "bin" if ("binary" in d or "bernoulli" in d) else
                     "relu11" if d.startswith("quantized_relu(1,1,") else "tanh" if "tanh" in d else "fixed")
  ka, kb = kinds(ad), kinds(bd)
  if ka == "po2" and kb in ("bin", "relu11") and ("use_01" in bd or "bernoulli" in bd or kb == "relu11"):
    return "C17-adder-table-po2-plus-01-uses-fixed-adder"
  if ka in ("tern", "bin", "relu11") or kb in ("tern", "bin", "relu11"):
    return "C17-adder-ternary-binary-operands-int-bits-count-sign"
  if "tanh" in (ka, kb):
    return "C17-quantized-tanh-type-has-no-int-bits"
  return None


def main():
  rep = vlib.Report(PROP, "proof")
  from translate import qtoolsops, mergegen
  gen = qtoolsops.emit(vlib.GEN)
  mgen = mergegen.emit(vlib.GEN)
  info = vlib.build_obligations(PROP, gen_files=[gen, mgen], extra_files=[os.path.join(vlib.COQ, "theories", "Link", "QToolsLink.v"),
                                                                         os.path.join(vlib.COQ, "theories", "Link", "MergeLink.v")])
  errs = rep.obligations(info, "python3 tools/translate/qtoolsops.py coq/gen && python3 tools/translate/mergegen.py coq/gen && coqc coq/gen/QToolsOps.v coq/gen/MergeGen.v "
                         "&& coqc coq/theories/Link/QToolsLink.v coq/theories/Link/MergeLink.v && coqc coq/theories/Properties/C17.v")
  for e in errs:
    rep.violation("obligation-" + os.path.basename(e["file"]), "proof obligation no longer checks: " + e["error"][-400:],
                  {"file": e["file"]}, no_input=True)
  from qkeras.qtools.quantized_operators import multiplier_factory, accumulator_factory, adder_factory, merge_factory
  mf = multiplier_factory.MultiplierFactory()
  af = accumulator_factory.AccumulatorFactory()
  ia = adder_factory.IAdder()
  mg = merge_factory.MergeFactory()
  rng = np.random.default_rng(vlib.SEED)
  ops = QK.make_operands(rep.tier)
  small = [(d, q, o) for d, q, o in QK.make_operands(rep.tier, small=True) if o.mode != 5]
  rep.cov["rule"] = ("(a) AccumulatorFactory over multiplier outputs x kernel shapes (dense/conv, N from 1 to 2^20, +-bias), IAdder over all "
                     "ordered operand pairs, MergeFactory Add/Maximum/Concatenate over operand lists: every reported type field vs the Coq "
                     "transcription; (b) brute force inside Coq: all value pairs of small operand types for adders; N*min and N*max of the "
                     "multiplier type for accumulators; distinct = distinct (operator, operand types, shape)")
  texts, items = [], []
  # accumulators
  shapes = [(1, 1), (3, 4), (7, 5), (16, 3), (3, 3, 2, 4), (1, 1, 1, 1), (5, 5, 8, 16), (1024, 8), (2 ** 20, 1), (2 ** 20 - 1, 2),
            (2 ** 10 + 1, 3), (1, 3, 3, 7)]
  npairs = 60 if rep.tier == "quick" else 400
  # every (weight mode, input mode) combination of the multiplier table is represented (the accumulator class depends on it)
  allpairs = [(a, b) for a in range(len(ops)) for b in range(len(ops))]
  chosen = vlib.stratified(allpairs, lambda ab: (ops[ab[0]][2].mode, ops[ab[1]][2].mode), npairs, rng, per=2)
  alive = []
  idx = [a * len(ops) + b for a, b in chosen]
  for t in idx:
    wd, _, w = ops[t // len(ops)]
    xd, _, x = ops[t % len(ops)]
    m = mf.make_multiplier(w, x)
    for sh in shapes:
      for ub in (True, False):
        kops = int(np.prod(sh[:-1]))
        try:
          acc = af.make_accumulator(sh, m, use_bias=ub)
          got = QK.render(acc.output)
          alive.append((f"acc[{wd} x {xd}, shape={sh}, bias={ub}]", acc, got))
        except Exception as e:  # pylint: disable=broad-except
          got = ["raise", type(e).__name__]
        items.append((f"acc[{wd} x {xd}, shape={sh}, bias={ub}]", got))
        texts.append(f"render (make_accumulator {kops} {vlib.blit(ub)} {QK.qt_lit(m.output)})")
  # np.ceil(np.log2(n)) vs the integer function, at powers of two and neighbours
  for k in range(0, 21):
    for n in (2 ** k - 1, 2 ** k, 2 ** k + 1):
      if n >= 1:
        items.append((f"ceil_log2({n})", [int(np.ceil(np.log2(n)))]))
        texts.append(f"[Z.log2_up {n}]")
  # adders
  for ad, _, a in ops:
    for bd, _, b in ops:
      try:
        ad_ = ia.make_quantizer(a, b)
        got = QK.render(ad_.output)
        alive.append((f"add[{ad} + {bd}]", ad_, got))
      except Exception as e:  # pylint: disable=broad-except
        got = ["raise", type(e).__name__]
      items.append((f"add[{ad} + {bd}]", got))
      texts.append(f"render (make_adder {QK.qt_lit(a)} {QK.qt_lit(b)})")
  # merges
  nm = 150 if rep.tier == "quick" else 1500
  for _ in range(nm):
    k = 1 + (_ % 4)                      # 1 .. 4 operands, in rotation
    sel = [ops[int(i)] for i in rng.integers(0, len(ops), size=k)]
    if _ % 5 == 0:
      sel = [sel[0]] * k                 # identical operands: Maximum / Concatenate return the operand type itself
    lit = "[" + "; ".join(QK.qt_lit(o) for _, _, o in sel) + "]"
    # the hand model and (translator validation) the function regenerated from merge_factory.py on this run
    for lt, fn in (("Add", "merge_add"), ("Maximum", "merge_max"), ("Concatenate", "merge_max"), ("Minimum", "merge_max"), ("Average", "merge_max"),
                   ("Add", "gen_merge_add"), ("Maximum", "gen_merge_max")):
      if fn.startswith("gen_") and errs:
        continue
      try:
        got = QK.render(mg.make_quantizer([(o, None) for _, _, o in sel], lt).output)
      except Exception as e:  # pylint: disable=broad-except
        got = ["raise", type(e).__name__]
      items.append((f"{lt}{'(regenerated)' if fn.startswith('gen_') else ''}[{', '.join(d for d, _, _ in sel)}]", got))
      texts.append(f"render ({fn} {lit})")
  # merge Add with more than two operands: the reported type is sized for two (directed, on the real factory)
  try:
    import qkeras.quantizers as QZ_
    from qkeras.qtools.quantized_operators import quantizer_factory as qf_
    o3 = qf_.QuantizerFactory().make_quantizer(QZ_.quantized_bits(4, 3, 1))
    m3 = mg.make_quantizer([(o3, None)] * 3, "Add").output
    top = 2 ** (o3.bits - 1) - 1                        # largest code of each operand (no fraction bits)
    cap = 2 ** (m3.bits - int(bool(m3.is_signed))) - 1
    if m3.bits - int(bool(m3.is_signed)) - m3.int_bits == 0 and 3 * top > cap:
      rep.finding("C17-merge-add-sized-for-two-operands", f"merge Add of three quantized_bits(4,3,1) operands reports bits={m3.bits}, int_bits={m3.int_bits}: "
                  f"the sum {3 * top} of the three largest values exceeds the largest representable {cap}", {"operands": 3})
  except Exception as e:  # pylint: disable=broad-except
    rep.violation("merge-add-three-operands-raises", f"MergeFactory Add on three operands raised {type(e).__name__}: {str(e)[:200]}", {})
  # histories: the operators made above by ONE factory each are still alive; what each reports now must be what it reported when made
  n_late = 0
  for d_, o_, got_ in alive:
    if QK.render(o_.output) != got_:
      n_late += 1
      rep.violation(f"type-changed-after-later-calls-{d_}", f"{d_} reported {got_} when it was made and reports {QK.render(o_.output)} after later calls on the same factory",
                    {"case": d_})
  rep.note(operators_reread_after_all_calls=len(alive), changed=n_late)
  SH = 1500
  shards = [(f"{PROP}_a_{s // SH:03d}", QK.HEADER + ("" if errs else "From QVGen Require Import QToolsOps MergeGen.\n") + "".join(f"Eval vm_compute in {t}.\n" for t in texts[s:s + SH]))
            for s in range(0, len(texts), SH)]
  outs = vlib.coq_eval_many(shards)
  for s in range(0, len(texts), SH):
    lists = outs[f"{PROP}_a_{s // SH:03d}"]
    for (d, got), l in zip(items[s:s + SH], lists):
      rep.count(d)
      if got and got[0] == "raise":
        rep.violation(f"raises-{d}", f"{d} raised {got[1]}", {"case": d})
      elif l != got:
        rep.violation(f"rule-mismatch-{d}", f"{d}: implementation {got} vs Coq model {l}", {"case": d, "impl": got, "model": l})
  rep.note(rule_outputs_compared=len(items))
  rep.sample({"case": items[0][0], "reported_type_fields": items[0][1]})
  rep.sample({"case": items[-1][0], "reported_type_fields": items[-1][1]})
  # (b) brute force
  texts, pairs = [], []
  for ad, _, a in small:
    for bd, _, b in small:
      pairs.append(("add", ad, bd))
      texts.append(f"(let b := add_bad_pairs {QK.qt_lit(a)} {QK.qt_lit(b)} in Z.of_nat (length b) :: "
                   f"match b with (a, c) :: _ => [rnum a; rden a; rnum c; rden c] | [] => [] end)")
  accN = [1, 2, 3, 4, 9, 1000, 2 ** 20]
  idx = rng.choice(len(small) * len(small), size=150 if rep.tier == "quick" else 1500, replace=False)
  for t in idx:
    wd, _, w = small[t // len(small)]
    xd, _, x = small[t % len(small)]
    m = mf.make_multiplier(w, x)
    for n in accN:
      pairs.append(("acc", f"{wd} x {xd}", f"N={n}"))
      texts.append(f"(let b := acc_bad {n} false {QK.qt_lit(m.output)} in Z.of_nat (length b) :: "
                   f"match b with a :: _ => [rnum a; rden a] | [] => [] end)")
  fixed_small = [(d, q, o) for d, q, o in small if o.mode == 0 and "tanh" not in d]
  idx = rng.choice(len(fixed_small) * len(fixed_small), size=120 if rep.tier == "quick" else 1200, replace=False)
  for t in idx:
    ad, _, a = fixed_small[t // len(fixed_small)]
    bd, _, b = fixed_small[t % len(fixed_small)]
    pairs.append(("merge_add", ad, bd))
    texts.append(f"(let b := merge_add_bad {QK.qt_lit(a)} {QK.qt_lit(b)} in Z.of_nat (length b) :: "
                 f"match b with (a, c) :: _ => [rnum a; rden a; rnum c; rden c] | [] => [] end)")
    pairs.append(("merge_max", ad, bd))
    texts.append(f"(let b := merge_max_bad {QK.qt_lit(a)} {QK.qt_lit(b)} in Z.of_nat (length b) :: "
                 f"match b with a :: _ => [rnum a; rden a] | [] => [] end)")
  SH = 500
  shards = [(f"{PROP}_b_{s // SH:03d}", QK.HEADER + "".join(f"Eval vm_compute in {t}.\n" for t in texts[s:s + SH]))
            for s in range(0, len(texts), SH)]
  outs = vlib.coq_eval_many(shards)
  by_class = {}
  nb = 0
  for s in range(0, len(texts), SH):
    lists = outs[f"{PROP}_b_{s // SH:03d}"]
    for (kind, ad, bd), l in zip(pairs[s:s + SH], lists):
      nb += 1
      if l[0] == 0:
        continue
      if kind == "merge_add":
        fid = "C17-merge-add-drops-fraction-bits"
        det = {"operands": [ad, bd], "values": [f"{l[1]}/{l[2]}", f"{l[3]}/{l[4]}"], "failing_value_pairs": l[0]}
        what = f"merge Add({ad}, {bd}): {det['values'][0]} + {det['values'][1]} not representable in the reported type"
      elif kind == "merge_max":
        fid = "C17-merge-maximum-concatenate-drops-fraction-bits"
        det = {"operands": [ad, bd], "value": f"{l[1]}/{l[2]}"}
        what = f"merge Maximum/Concatenate({ad}, {bd}): operand value {det['value']} not representable in the reported type"
      elif kind == "add":
        fid = classify_add(ad, bd)
        det = {"operands": [ad, bd], "values": [f"{l[1]}/{l[2]}", f"{l[3]}/{l[4]}"], "failing_value_pairs": l[0]}
        what = f"adder {ad} + {bd}: {det['values'][0]} + {det['values'][1]} not representable in the reported type"
      else:
        w_, x_ = ad.split(" x ")
        fid = None
        if fid is None and any(t in ad for t in ("ternary", "binary", "bernoulli", "quantized_relu(1,1,")):
          fid = "C17-accumulator-of-ternary-binary-products"
        if fid is None and "tanh" in ad:
          fid = "C17-quantized-tanh-type-has-no-int-bits"
        det = {"multiplier": ad, "kernel": bd, "sum": f"{l[1]}/{l[2]}"}
        what = f"accumulator for {ad}, {bd}: extreme sum {det['sum']} not representable"
      by_class.setdefault(fid or "unclassified", []).append(det)
      if fid is None:
        rep.violation(f"sum-not-representable-{kind}-{ad}-{bd}", what, det)
      else:
        rep.finding(fid, what, det)
  rep.note(bruteforce_cases=nb, unrepresentable_by_class={k: len(v) for k, v in by_class.items()},
           unrepresentable_examples={k: v[0] for k, v in by_class.items()})
  rep.assumptions += ["value sets as in QTools/Types.v", "np.ceil(np.log2(n)) agrees with Z.log2_up (compared at 2^k, 2^k+-1, k <= 20, on every run)"]
  return rep.finish(vlib.TRUSTED_COMMON + ["translators tools/translate/{qtoolsops,mergegen}.py regenerate coq/gen/{QToolsOps,MergeGen}.v; Link/{QToolsLink,MergeLink}.v prove them equal to QTools/Ops.v",
                                          "model QTools/Ops.v is a hand transcription; tie = comparison of every reported type with the implementation over the operand lattice"])


if __name__ == "__main__":
  sys.exit(main())

"""C10 -- quantizer strings parse as the equivalent Python call and str(q) re-parses to q."""
import os
import sys

sys.path.insert(0, os.path.dirname(os.path.dirname(os.path.abspath(__file__))))
import vlib  # noqa: E402
from harness import env  # noqa: E402
import numpy as np  # noqa: E402
from translate import qmeta  # noqa: E402
from checks import c09  # noqa: E402

PROP = "C10"
tf = env.tf
HEADER = ("From Coq Require Import String List ZArith.\nFrom QV Require Import Parse.SafeEval.\n"
          "Open Scope string_scope. Import ListNotations.\n")

STR_OMITS = {
    "quantized_linear": ["scale_axis", "qnoise_factor"],
    "quantized_bits": ["scale_axis", "qnoise_factor", "elements_per_scale", "min_po2_exponent", "max_po2_exponent", "post_training_scale"],
    "quantized_relu": ["relu_upper_bound", "is_quantized_clip", "qnoise_factor"],
    "quantized_po2": ["log2_rounding", "qnoise_factor"],
    "quantized_relu_po2": ["log2_rounding", "qnoise_factor"],
    "quantized_hswish": ["scale_axis", "qnoise_factor"],
}
# classes whose optional POSITIONAL flags are not prefix-closed (a later one can be printed
# while an earlier one is skipped): decided in Coq from the generated table, see Properties/C10.v
SLOT_CLASSES = {
    "quantized_relu": ["negative_slope"],
    "quantized_tanh": ["symmetric", "use_real_tanh"],
    "quantized_sigmoid": ["use_real_sigmoid"],
    "quantized_relu_po2": ["negative_slope"],
}


def coq_string(s):
  return '"' + s.replace('"', '""') + '"'


class Rec:
  def __init__(self):
    self.calls = []

  def __call__(self, *a, **k):
    self.calls.append((a, k))
    return ("called", a, k)


def gen_literal(rng, python_only=False):
  """returns (text, canonical rendering expected from the Coq model, python value)"""
  k = int(rng.integers(0, 7 if not python_only else 6))
  if k == 0:
    v = int(rng.integers(-2000, 2000))
    return str(v), f"I:{v}", v
  if k == 1:
    forms = ["{:.3f}", "{:.1e}", "{:.2E}", "{:g}"]
    v = float(rng.normal(0, 10) * 10.0 ** int(rng.integers(-6, 4)))
    t = forms[int(rng.integers(0, len(forms)))].format(v)
    if all(c.isdigit() or c == "-" for c in t):
      t += ".0"
    return t, f"F:{t}", float(t)
  if k == 2:
    b = bool(rng.integers(0, 2))
    return str(b), f"B:{int(b)}", b
  if k == 3:
    return "None", "N", None
  if k in (4, 5):
    words = ["auto", "auto_po2", "rnd", "floor", "hard", "a_b", "x1", "quantized_bits", ""]
    w = words[int(rng.integers(0, len(words)))]
    qch = "'" if rng.integers(0, 2) else '"'
    return qch + w + qch, f"S:{w}", w
  n = int(rng.integers(2, 5))
  elems = []
  rend = []
  vals = []
  for _ in range(n):
    if rng.integers(0, 2):
      v = int(rng.integers(-9, 9))
      elems.append(str(v)); rend.append(f"I:{v}"); vals.append(v)
    else:
      t = "{:.2f}".format(float(rng.normal(0, 2)))
      elems.append(t); rend.append(f"F:{t}"); vals.append(float(t))
  return "[" + " ".join(elems) + "]", "L:" + ";".join(rend), vals


def main():
  rep = vlib.Report(PROP, "proof")
  gen = qmeta.emit(vlib.GEN)
  info = vlib.build_obligations(PROP, gen_files=[gen])
  errs = rep.obligations(info, "python3 tools/translate/qmeta.py coq/gen && coqc coq/gen/QMeta.v && coqc coq/theories/Properties/C10.v")
  for e in errs:
    rep.violation("obligation-" + os.path.basename(e["file"]), "proof obligation no longer checks: " + e["error"][-600:],
                  {"file": e["file"]}, no_input=True)
  import qkeras.quantizers as Q
  import importlib
  SE = importlib.import_module("qkeras.safe_eval")   # `from qkeras import safe_eval` is the function, not the module
  rng = np.random.default_rng(vlib.SEED)
  env.install_learning_phase()
  env.set_phase(0)
  rep.cov["rule"] = ("(A) argument strings generated from the literal grammar (ints, floats incl. scientific/negative, True/False/None, "
                     "single/double quoted strings, space-separated number lists; 0-4 positional then 0-4 keyword items, optional blank "
                     "after commas) plus a malformed stream (keyword then positional, empty items, missing value): real GetParams/safe_eval "
                     "with a recording callable vs the Coq parser model vs Python's own eval of the same call; (B) every quantizer "
                     "instance of the C09 option lattice: get_quantizer(str(q)) must compute the same function. distinct = distinct strings "
                     "resp. (class, option assignment)")
  n = 1500 if rep.tier == "quick" else 20000
  cases = []
  names = ["quantized_bits", "quantized_relu", "f", "binary"]
  for i in range(n):
    npos, nkw = int(rng.integers(0, 5)), int(rng.integers(0, 5))
    py_ok = True
    items, rend, args, kwargs = [], [], [], {}
    for _ in range(npos):
      # the positional token regex [^=,)\s]+ has no blanks: number lists can only be keyword values
      t, r, v = gen_literal(rng, python_only=True)
      py_ok &= not t.startswith("[")
      items.append(t); rend.append(r); args.append(v)
    for j in range(nkw):
      t, r, v = gen_literal(rng)
      py_ok &= not t.startswith("[")
      key = ["alpha", "bits", "use_01", "scale_axis", "k" + str(j)][int(rng.integers(0, 5))]
      if key in kwargs:
        key = key + str(j)
      items.append(f"{key}={t}"); rend.append(f"{key}={r}"); kwargs[key] = v
    sep = ", " if rng.integers(0, 2) else ","
    inner = sep.join(items)
    malformed = None
    if i % 10 == 9 and npos and nkw:
      # keyword then positional: must be rejected
      it2 = items[npos:] + items[:npos]
      inner = sep.join(it2)
      malformed = "SyntaxError"
    elif i % 50 == 49:
      inner = inner + ",," if inner else ",,"
      malformed = "ParseError"
    cases.append((inner, "|".join(rend), args, kwargs, py_ok, malformed, names[i % 4]))
  texts = []
  n_py = n_bad = 0
  for inner, rend, args, kwargs, py_ok, malformed, name in cases:
    rep.count(inner)
    rec = Rec()
    try:
      got = SE.GetParams("(" + inner + ")")
      outcome = "ok"
    except SyntaxError:
      got, outcome = None, "SyntaxError"
    except Exception as e:  # pylint: disable=broad-except
      got, outcome = None, "ParseError"
    if malformed:
      if outcome == "ok":
        rep.violation(f"malformed-accepted-{n_bad}", f"malformed argument text accepted: ({inner}) -> {got}", {"text": inner, "expected": malformed})
        n_bad += 1
      texts.append((inner, malformed if outcome == malformed else "<impl:" + outcome + ">", True))
      continue
    if outcome != "ok":
      rep.violation(f"wellformed-rejected-{n_bad}", f"well-formed argument text rejected with {outcome}: ({inner})", {"text": inner})
      n_bad += 1
      continue
    gargs, gkw = got
    def same(a, b):
      if isinstance(a, float) or isinstance(b, float):
        return type(a) is type(b) and a == b
      if isinstance(a, list):
        return isinstance(b, list) and len(a) == len(b) and all(same(x, y) for x, y in zip(a, b))
      return type(a) is type(b) and a == b
    if not (len(gargs) == len(args) and all(same(x, y) for x, y in zip(gargs, args)) and
            list(gkw) == list(kwargs) and all(same(gkw[k], kwargs[k]) for k in kwargs)):
      rep.violation(f"getparams-{n_bad}", f"GetParams(({inner})) = {got}, expected args={args} kwargs={kwargs}", {"text": inner})
      n_bad += 1
    # through safe_eval with a recording callable: the callable receives exactly these arguments
    res = SE.safe_eval(name + "(" + inner + ")", {name: rec})
    if not (len(rec.calls) == 1 and len(rec.calls[0][0]) == len(args) and set(rec.calls[0][1]) == set(kwargs)):
      rep.violation(f"safe-eval-call-{n_bad}", f"safe_eval({name}({inner})) called the target with {rec.calls}", {"text": inner})
      n_bad += 1
    # Python's own evaluation of the same call expression
    if py_ok:
      n_py += 1
      rec2 = Rec()
      try:
        eval(name + "(" + inner + ")", {"__builtins__": {}, name: rec2, "True": True, "False": False, "None": None})  # pylint: disable=eval-used
        pa, pk = rec2.calls[0]
        if not (len(pa) == len(gargs) and all(same(x, y) for x, y in zip(pa, gargs)) and
                set(pk) == set(gkw) and all(same(pk[k], gkw[k]) for k in pk)):
          rep.violation(f"python-eval-differs-{n_bad}", f"({inner}): safe_eval gives {got}, Python gives {(pa, pk)}", {"text": inner})
          n_bad += 1
      except Exception as e:  # pylint: disable=broad-except
        rep.violation(f"python-eval-raises-{n_bad}", f"generator produced non-Python text ({inner}): {e}", {"text": inner})
    texts.append((inner, rend, False))
  # Coq model of the parser on the same strings
  SH = 400
  shards = []
  for s in range(0, len(texts), SH):
    body = HEADER + "Eval vm_compute in map (fun p => if String.eqb (parse_inner (fst p)) (snd p) then 0%Z else 1%Z) [" + \
        "; ".join(f"({coq_string(i)}, {coq_string(r)})" for i, r, _ in texts[s:s + SH]) + "].\n"
    shards.append((f"{PROP}_p_{s // SH:03d}", body))
  outs = vlib.coq_eval_many(shards)
  n_model = 0
  for s in range(0, len(texts), SH):
    flags = outs[f"{PROP}_p_{s // SH:03d}"][0]
    for (inner, rend, mal), fl in zip(texts[s:s + SH], flags):
      n_model += 1
      if fl != 0:
        rep.violation(f"model-mismatch-{n_model}", f"argument text ({inner}): implementation parses to [{rend}] but the Coq model differs", {"text": inner, "impl": rend})
  rep.note(parser=dict(strings=len(cases), compared_with_model=n_model, compared_with_python_eval=n_py))
  rep.sample({"text": cases[0][0], "parsed": cases[0][1]})
  rep.sample({"text": cases[7][0], "parsed": cases[7][1]})

  # ---------------- str(q) direction ----------------
  probes = [tf.constant(rng.normal(0, 1, size=(4, 6)).astype(np.float32)),
            tf.constant(np.linspace(-3, 3, 24, dtype=np.float32).reshape(4, 6))]
  n_str = n_same = n_np = n_long = 0
  LONG_KEYS = ("alpha", "threshold", "temperature", "relu_upper_bound", "u", "max_value")
  for cls_name in c09.LATTICE:
    cls = getattr(Q, cls_name)
    for kw in c09.instances(cls_name, rep.tier, rng):
      lat = c09.LATTICE[cls_name]
      nondef = [k for k in kw if kw[k] != lat[k][0]]
      desc = f"{cls_name}({', '.join(f'{k}={kw[k]}' for k in nondef)})"
      try:
        q = cls(**c09.materialize(kw))
      except Exception:  # pylint: disable=broad-except
        continue
      # numeric options computed with numpy (np.max(...), np.float32(...)) are scalars of numpy types: the text must still be the plain literal
      np_kw = {k: (np.float32(v) if isinstance(v, float) else v) for k, v in c09.materialize(kw).items()}
      if any(isinstance(v, np.float32) for k, v in np_kw.items() if k in nondef):
        try:
          qn = cls(**np_kw)
          tn = str(qn)
          q2n = Q.get_quantizer(tn)
          n_np += 1
          if cls_name != "bernoulli" and any(env.f2b(q(p_).numpy()) != env.f2b(q2n(p_).numpy()) for p_ in probes) and not (
              [k for k in nondef if k in STR_OMITS.get(cls_name, [])] or [k for k in nondef if k in SLOT_CLASSES.get(cls_name, [])]):
            rep.violation(f"str-roundtrip-numpy-scalar-{desc}", f"{desc} built with numpy scalar option values prints '{tn}', which re-parses to a quantizer computing a "
                          f"different function (the same options as Python floats print '{str(q)}')", {"class": cls_name, "kwargs": str(kw), "text": tn})
        except Exception as e:  # pylint: disable=broad-except
          if not ([k for k in nondef if k in STR_OMITS.get(cls_name, [])] or [k for k in nondef if k in SLOT_CLASSES.get(cls_name, [])]):
            rep.violation(f"str-numpy-scalar-raises-{desc}", f"{desc} built with numpy scalar option values: str / get_quantizer raised {type(e).__name__}: {str(e)[:160]}",
                          {"class": cls_name, "kwargs": str(kw)})
      # numeric options that need many digits (a scale that went through float32, 1/3, ...): the text must carry the value exactly
      long_keys = [k for k, v in c09.materialize(kw).items() if isinstance(v, float) and k in LONG_KEYS and k in nondef]
      long_kw = {k: (float(np.float32(v) / np.float32(3)) if k in long_keys else v) for k, v in c09.materialize(kw).items()}
      if long_keys:
        try:
          ql = cls(**long_kw)
          tl = str(ql)
          q2l = Q.get_quantizer(tl)
          n_long += 1
          if cls_name == "bernoulli":
            differs = any(getattr(q2l, a) != getattr(ql, a) for a in ("alpha", "temperature", "use_real_sigmoid"))
          else:
            differs = any(env.f2b(ql(p_).numpy()) != env.f2b(q2l(p_).numpy()) for p_ in probes)
          if differs and not ([k for k in nondef if k in STR_OMITS.get(cls_name, [])] or [k for k in nondef if k in SLOT_CLASSES.get(cls_name, [])]):
            rep.violation(f"str-roundtrip-long-literal-{desc}", f"{desc} with many-digit option values {({k: long_kw[k] for k in long_keys})} "
                          f"prints '{tl}', which re-parses to a quantizer computing a different function", {"class": cls_name, "kwargs": str(long_kw), "text": tl})
        except Exception as e:  # pylint: disable=broad-except
          if not ([k for k in nondef if k in STR_OMITS.get(cls_name, [])] or [k for k in nondef if k in SLOT_CLASSES.get(cls_name, [])]):
            rep.violation(f"str-long-literal-raises-{desc}", f"{desc} with many-digit option values: constructor / str / get_quantizer raised {type(e).__name__}: {str(e)[:160]}",
                          {"class": cls_name, "kwargs": str(long_kw)})
      n_str += 1
      rep.count((cls_name, tuple(sorted((k, str(v)) for k, v in kw.items()))))
      explained = [f"C10-str-omits-{cls_name}-{k}" for k in nondef if k in STR_OMITS.get(cls_name, [])]
      explained += [f"C10-str-positional-slot-{cls_name}" for k in nondef if k in SLOT_CLASSES.get(cls_name, [])]
      if cls_name == "binary" and any(isinstance(kw.get(k), list) for k in ("scale_axis", "elements_per_scale")):
        explained.append("C10-str-binary-lists-use-commas")
      try:
        text = str(q)
      except Exception as e:  # pylint: disable=broad-except
        rep.violation(f"str-raises-{desc}", f"str({desc}) raised {type(e).__name__}: {e}", {"class": cls_name, "kwargs": str(kw)})
        continue
      try:
        q2 = Q.get_quantizer(text)
      except Exception as e:  # pylint: disable=broad-except
        if explained:
          rep.finding(explained[0], f"{desc} prints '{text}', which does not parse: {type(e).__name__}", {"class": cls_name, "text": text})
        else:
          rep.violation(f"str-does-not-parse-{desc}", f"{desc} prints '{text}', which does not parse: {type(e).__name__}: {str(e)[:200]}",
                        {"class": cls_name, "text": text})
        continue
      if cls_name == "bernoulli":
        same = all(getattr(q2, a) == getattr(q, a) for a in ("alpha", "temperature", "use_real_sigmoid"))
      else:
        same = True
        try:
          for p in probes:
            if env.f2b(q(p).numpy()) != env.f2b(q2(p).numpy()):
              same = False
              break
        except Exception as e:  # pylint: disable=broad-except
          same = False
      if same:
        n_same += 1
      elif explained:
        for fid in explained:
          rep.finding(fid, f"{desc} prints '{text}', which re-parses to a different function", {"class": cls_name, "text": text})
      else:
        rep.violation(f"str-roundtrip-{desc}", f"{desc} prints '{text}', which re-parses to a quantizer computing a different function",
                      {"class": cls_name, "kwargs": str(kw), "text": text})
  rep.note(str_direction=dict(instances=n_str, same_function=n_same, instances_with_numpy_scalar_options=n_np, instances_with_many_digit_options=n_long))
  rep.assumptions += ["pyparsing's tokenisation is modelled by Parse/SafeEval.v tokenize (split at commas, key [^=,)\\s]+, value [^,)]*) and compared on every generated string",
                      "float literals are compared as tokens in Coq and by Python float() equality in the harness",
                      "the generated grammar has no blank before a comma: a keyword value followed by blanks keeps them (e.g. 'True ' is not recognised as a bool) -- outside the claimed literal grammar",
                      "number lists use numpy's print form '[1 2 3]' (what str(q) emits); they are not Python syntax and are excluded from the Python-eval comparison"]
  return rep.finish(vlib.TRUSTED_COMMON + ["__str__ emission tables and the callee list of safe_eval.py are regenerated from /repo on every run by tools/translate/qmeta.py"])


if __name__ == "__main__":
  sys.exit(main())

"""C04 -- binary/ternary quantizers emit only {-s,+s}, {0,s} or {-s,0,+s}, sign-correct."""
import itertools
import os
import sys

sys.path.insert(0, os.path.dirname(os.path.dirname(os.path.abspath(__file__))))
import vlib  # noqa: E402
from harness import env  # noqa: E402
import numpy as np  # noqa: E402
from fractions import Fraction  # noqa: E402

PROP = "C04"
tf = env.tf
HEADER = ("From Coq Require Import ZArith List Bool.\n"
          "From QV Require Import Base.ZQ Base.FL Quant.Po2 Quant.BinTern.\n"
          "Open Scope Z_scope. Import ListNotations.\n")


def tensors(rng, tier):
  out = []
  shapes = [(6,), (4, 3), (3, 4, 2), (2, 3, 2, 4), (8, 4)]
  for sh in shapes:
    out.append(("normal", rng.normal(0, 1, size=sh)))
    out.append(("tiny", rng.normal(0, 1e-6, size=sh)))
    out.append(("huge", rng.normal(0, 1e5, size=sh)))
    z = rng.normal(0, 1, size=sh)
    z.flat[0] = 0.0
    if len(sh) > 1:
      z[..., 0] = 0.0      # an all-zero channel
    out.append(("zero-channel", z))
    out.append(("mixed-magnitude", rng.normal(0, 1, size=sh) * 2.0 ** rng.integers(-8, 8, size=sh)))
  out.append(("all-zero", np.zeros((3, 2))))
  if tier == "quick":
    idx = rng.choice(len(out), size=12, replace=False)
    out = [out[i] for i in sorted(idx)]
  return [(k, np.asarray(v, dtype=np.float32)) for k, v in out]


def configs():
  cfgs = []
  for alpha, use01 in itertools.product([None, 1.0, 3.0, 0.5, "auto", "auto_po2"], [False, True]):
    cfgs.append(dict(fam="binary", alpha=alpha, use01=use01, scale_axis=None, eps=None, emin=None, emax=None))
  cfgs += [dict(fam="binary", alpha="auto", use01=False, scale_axis=0, eps=None, emin=None, emax=None),
           dict(fam="binary", alpha="auto_po2", use01=False, scale_axis=1, eps=None, emin=None, emax=None),
           dict(fam="binary", alpha="auto_po2", use01=False, scale_axis=None, eps=None, emin=-2, emax=1),
           dict(fam="binary", alpha="auto_po2", use01=True, scale_axis=None, eps=None, emin=0, emax=None),
           dict(fam="binary", alpha="auto_po2", use01=False, scale_axis=1, eps=2, emin=None, emax=None),
           dict(fam="binary", alpha="auto", use01=False, scale_axis=1, eps=2, emin=None, emax=None)]
  for alpha, thr in [(None, None), (1.0, None), (2.0, 0.7), (0.5, 0.1), ("auto", None), ("auto_po2", None)]:
    cfgs.append(dict(fam="ternary", alpha=alpha, thr=thr))
  return cfgs


def desc(c):
  return ", ".join(f"{k}={v}" for k, v in c.items() if v is not None or k == "alpha")


def build(c):
  import qkeras.quantizers as Q
  if c["fam"] == "binary":
    return Q.binary(use_01=c["use01"], alpha=c["alpha"], scale_axis=c["scale_axis"], elements_per_scale=c["eps"],
                    min_po2_exponent=c["emin"], max_po2_exponent=c["emax"])
  return Q.ternary(alpha=c["alpha"], threshold=c["thr"])


def group_ids(c, shape):
  """documented grouping: one scale per output channel (last axis) or per configured axis / block"""
  idx = np.indices(shape)
  rank = len(shape)
  if rank == 1:
    return idx[0]                                 # every element is its own channel
  if c["fam"] == "ternary" or c.get("scale_axis") is None:
    return idx[-1]
  a = c["scale_axis"]
  g = idx[a]
  if c.get("eps"):
    g = g // c["eps"]
  return g


def opt(v):
  return "None" if v is None else f"(Some {vlib.zlit(v)})"


def main():
  rep = vlib.Report(PROP, "proof")
  from translate import btgen
  bgen = btgen.emit(vlib.GEN)
  info = vlib.build_obligations(PROP, gen_files=[bgen], extra_files=[os.path.join(vlib.COQ, "theories", "Link", "BinTernLink.v")])
  errs = rep.obligations(info, "python3 tools/translate/btgen.py coq/gen && coqc coq/gen/BinTernGen.v && coqc coq/theories/Link/BinTernLink.v && coqc coq/theories/Properties/C04.v")
  for e in errs:
    rep.violation("obligation-" + os.path.basename(e["file"]), "proof obligation no longer checks: " + e["error"][-400:],
                  {"file": e["file"]}, no_input=True)
  rng = np.random.default_rng(vlib.SEED)
  rep.cov["rule"] = ("binary (use_01 on/off) and ternary quantizers x alpha in {None, constants, 'auto', 'auto_po2'} x thresholds x scale_axis / "
                     "elements_per_scale / exponent bounds x tensors of rank 1..4 (normal, tiny 1e-6, huge 1e5, zeros, all-zero channels, "
                     "mixed magnitudes); every group (output channel or configured block) is sent to the Coq checker with x, y and the "
                     "reported scale. distinct = distinct (config, tensor kind, shape, group)")
  texts, items = [], []
  n_groups = 0
  for c in configs():
    tlist = tensors(rng, rep.tier)
    if c["fam"] == "ternary" and not isinstance(c["alpha"], str):
      # the decision boundary itself: |x| == threshold is NOT below the threshold, its float32 neighbours on both sides
      t = np.float32(0.33 if c["thr"] is None else c["thr"])
      lo, hi = np.nextafter(t, np.float32(0)), np.nextafter(t, np.float32(np.inf))
      edge = np.array([t, -t, lo, -lo, hi, -hi, 0.0, 2 * t, -2 * t, t / 2], dtype=np.float32)
      tlist = [("threshold-edge", edge), ("threshold-edge", np.tile(edge[:8], 3).reshape(2, 3, 4))] + tlist
    for kind, x in tlist:
      if c.get("scale_axis") is not None and (x.ndim <= c["scale_axis"] or x.ndim < 2):
        continue
      if c.get("eps") and x.shape[c["scale_axis"]] % c["eps"]:
        continue
      q = build(c)
      try:
        y = q(tf.constant(x)).numpy()
      except Exception as e:  # pylint: disable=broad-except
        rep.violation(f"raises-{desc(c)}-{kind}-{x.shape}", f"{desc(c)} on a {kind} tensor {x.shape} raised {type(e).__name__}: {str(e)[:200]}", {"config": c})
        continue
      if not np.all(np.isfinite(y)):
        rep.violation(f"non-finite-{desc(c)}-{kind}-{x.shape}", f"{desc(c)} on a {kind} tensor {x.shape} produced non-finite outputs", {"config": c, "x_bits": env.f2b(x)})
        continue
      sc = q.scale
      sc = np.broadcast_to(np.asarray(sc, dtype=np.float32), x.shape)
      xa = tf.tanh(tf.constant(x)).numpy() if c["alpha"] is None else x
      gid = group_ids(c, x.shape)
      auto = isinstance(c["alpha"], str)
      for g in np.unique(gid):
        m = gid == g
        xs, xas, ys, ss = x[m], xa[m], y[m], sc[m]
        if auto and not np.all(env.f2b(ss) == np.asarray(env.f2b(ss))[0]):
          rep.violation(f"scale-not-constant-{desc(c)}-{kind}", f"{desc(c)}: the scale varies inside one group {ss[:4]}", {"config": c, "shape": x.shape})
          continue
        n_groups += 1
        rep.count((desc(c), kind, x.shape, int(g)))
        s0 = float(ss[0])
        # codes as the implementation emitted them (verified element-wise in Coq through the STE sum)
        if s0 > 0:
          qs = np.rint(ys.astype(np.float64) / s0).astype(int)
        else:
          qs = np.zeros(ys.shape, dtype=int) if c["fam"] == "ternary" else np.where(xs < 0, -1 if not c.get("use01") else 0, 1)
        if not auto:
          # constant / absent alpha: the scale is alpha (1 when None)
          want = 1.0 if c["alpha"] is None else float(np.float32(c["alpha"]))
          if not np.all(ss == np.float32(want)):
            rep.violation(f"scale-not-alpha-{desc(c)}", f"{desc(c)}: reported scale {ss[:3]} is not the configured alpha", {"config": c})
        mode = 0 if not auto else (1 if c["alpha"] == "auto" else 2)
        if x.ndim == 1 and auto:
          mode = mode  # single-element groups: LS of one element
        tl = [f"chk_group {mode} {opt(c.get('emin'))} {opt(c.get('emax'))} {vlib.zlist(env.f2b(xas))} {vlib.zlist(env.f2b(xs))} "
              f"{vlib.zlist(env.f2b(ys))} {vlib.zlist(qs.tolist())} {env.f2b([ss[0]])[0]}"]
        if c["fam"] == "binary":
          tl.append(f"[chk_bcodes {vlib.blit(c['use01'])} {vlib.zlist(env.f2b(xs))} {vlib.zlist(qs.tolist())}]")
        elif not auto:
          thr = 0.33 if c["thr"] is None else c["thr"]
          tl.append(f"[chk_tcodes {vlib.ratlit(Fraction(float(np.float32(thr))))} {vlib.zlist(env.f2b(xs))} {vlib.zlist(qs.tolist())}]")
        else:
          tl.append(f"[chk_tcodes_auto {vlib.zlist(env.f2b(xs))} {vlib.zlist(qs.tolist())}]")
        texts.append("(" + " ++ ".join(tl) + ")%list")
        items.append((c, kind, x.shape, int(g), env.f2b(xs), env.f2b(ys), float(ss[0])))
  SH = 300
  shards = [(f"{PROP}_k_{s // SH:03d}", HEADER + "".join(f"Eval vm_compute in {t}.\n" for t in texts[s:s + SH])) for s in range(0, len(texts), SH)]
  outs = vlib.coq_eval_many(shards)
  n_ok = 0
  for s in range(0, len(texts), SH):
    for (c, kind, shape, g, xb, yb, s0), l in zip(items[s:s + SH], outs[f"{PROP}_k_{s // SH:03d}"]):
      bad_elem, grp, codes = l[0], l[1], l[2]
      if bad_elem == 0 and grp == 0 and codes == 0:
        n_ok += 1
        continue
      what = []
      if bad_elem:
        what.append(f"{bad_elem} outputs are not scale*code")
      if grp:
        what.append("the reported scale is not the (power-of-two rounded) least-squares optimum of its group / is negative")
      if codes:
        what.append("codes do not follow the sign / threshold rule")
      fid = None
      if grp and not bad_elem and not codes and s0 == 0.0:
        fid = None
      rep.violation(f"group-{desc(c)}-{kind}-{shape}-{g}", f"{desc(c)} on a {kind} tensor {shape}, group {g}: " + "; ".join(what),
                    {"config": c, "x_bits": xb, "y_bits": yb, "scale": s0})
  rep.note(groups_checked=n_groups, groups_ok=n_ok)
  rep.sample({"config": desc(items[0][0]), "tensor": items[0][1], "shape": list(items[0][2]), "x_bits": items[0][4][:4], "y_bits": items[0][5][:4],
              "scale": items[0][6]})
  rep.assumptions += ["tf reductions (mean, max) are not modelled bit-exactly: the reported scale is compared with the exact least-squares value to 2^-17 relative",
                      "float32 log in 'auto_po2': the exponent must lie between the exact roundings of LS*(1-2^-12) and LS*(1+2^-12)",
                      "tanh of alpha=None is a TensorFlow kernel (oracle); grouping (channel = last axis, scale_axis, elements_per_scale blocks) is applied by the harness as documented",
                      "stochastic variants are covered by C08"]
  return rep.finish(vlib.TRUSTED_COMMON + ["translator tools/translate/btgen.py regenerates coq/gen/BinTernGen.v (deterministic paths of binary / ternary __call__ and _get_least_squares_scale); Link/BinTernLink.v proves it equal to Quant/BinTernSrc.v; means over scale groups, float32 log and the stochastic paths are not translated",
                                          "model Quant/BinTern.v is hand-written; tie = certified relational checker evaluated on the implementation's inputs/outputs/scales"])


if __name__ == "__main__":
  sys.exit(main())

#!/bin/sh
# usage: tools/thorough.sh <Cxx> ...   -- thorough tier of the named checks on the unchanged tree; prints alarms only
cd "$(dirname "$0")/.."
for p in "$@"; do
  /usr/bin/time -f "%es" ./check $p --tier thorough > /tmp/thorough_$p.out 2>&1; rc=$?
  echo "$p thorough rc=$rc violations=$(grep -c '^VIOLATION' /tmp/thorough_$p.out) tracebacks=$(grep -c Traceback /tmp/thorough_$p.out) $(tail -1 /tmp/thorough_$p.out)"
  [ "$rc" != "0" ] && for f in $(grep '^VIOLATION' /tmp/thorough_$p.out | head -4 | sed 's/.*replay=//; s/ .*//'); do python3 -c "import json,sys; d=json.load(open('$f')); print('   ', d['what'][:700])"; done
done
true

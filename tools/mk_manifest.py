#!/usr/bin/env python3
"""Regenerates /verif/MANIFEST.json from the table below (run after adding a check)."""
import json
import os

VERIF = os.path.dirname(os.path.dirname(os.path.abspath(__file__)))

TB_COMMON = ("Trusted: Coq 8.16.1 kernel + vm_compute (no native_compute); no axioms declared (scan on every run; "
             "Print Assumptions under every property theorem is parsed into the evidence); the hand-written model is tied "
             "to /repo by the correspondence run of the same check (exact comparison on generated cases), whose generators, "
             "bit-level float decoding and Coq-output parser are trusted. ")

CHECKS = {
    "C01": dict(
        category="proof",
        text=("Coq theorems (Properties/C01.v) prove for every configuration and every rational input that the integer code of "
              "quantized_bits / quantized_linear / quantized_relu (plain, leaky) / quantized_tanh / quantized_sigmoid lies in the "
              "declared [lo,hi], that at most 2^bits codes exist, that min()/max() enclose and range() enumerates exactly the reachable "
              "codes. The model (Quant/Fixed.v) is compared exactly, float32 bit pattern by bit pattern, with the eager TensorFlow "
              "implementation at every rounding breakpoint +-1ulp, edges, zeros/denormals and random tensors."
              " The float32 bridge is proved (Quant/FLExact.v): the rounding function fl of the float model is the identity on every k*2^e with |k| < 2^24 in the normal range, hence every representable code times its step IS a float32 value (C01_code_times_step_is_a_float32_value, C01_qbits_output_is_a_float32_value)."
              " Translator lingen.py -> coq/gen/LinGen.v + Link/LinLink.v: get_clip_bounds of quantized_linear IS (smallest code, largest code) and max()/min() are those codes times the quantization scale the codes are multiplied by, for every multi-bit configuration (regenerated every run). Quantizers are also built by assigning the modifiable attribute symmetric after construction."
              " Translator qbitsgen.py -> coq/gen/QBitsGen.v + Link/QBitsLink.v: the value the legacy quantized_bits.__call__ computes on its data-independent path is scale * code * 2^step for a code inside [lo, hi] of the declared format, for every configuration (multi-bit and sign form), scale and rational input."
              " Translator relucallgen.py -> coq/gen/ReluCallGen.v + Link/ReluCallLink.v: for the plain ReLU the quantized value of quantized_relu.__call__ is qr_val of the model for every configuration (is_quantized_clip, relu_upper_bound given or not) and rational input."),
        design_ref="DESIGN.md section 5 C01, section 10, section 10.10",
        note=(TB_COMMON + "TensorFlow float32 kernels are modelled as exact rational arithmetic inside the hypothesis |x| < 2^24 output-grid "
              "steps (exactness argument in DESIGN.md 2.2); hard/smooth sigmoid use the explicit 24-bit rounding function fl of Base/FL.v; "
              "'real' sigmoid/tanh are oracles checked through the grid/range predicate; non power-of-two constant alpha compared within "
              "2^-22 relative. Flush-to-zero calibrated per run."),
        technique="Coq proof over an exact rational model + bit-exact differential correspondence (vm_compute) with the TF implementation"),
    "C02": dict(
        category="proof",
        text=("Coq theorems (Properties/C02.v): round-half-even is within half a unit and no integer is closer; inside the range the code is "
              "within half a step, outside it is the end code; codes are monotone in the rational input; quantized_bits (alpha in {None,1}), "
              "plain quantized_relu are idempotent; quantized_linear's clip-then-round equals round-then-clip. Same exact correspondence as C01 "
              "plus direct nearest / monotone / q(q(x)) evaluation on the implementation."
              " Translator lingen.py -> coq/gen/LinGen.v + Link/LinLink.v: _scale_clip_and_round of quantized_linear is rround(rclip lo hi (x/qs)) = ql_code and the quantized value of __call__ is ql_val for every multi-bit configuration, positive scale and rational input, so the LinearThm theorems (idempotent, monotone, nearest) are about the regenerated code."
              " Translator qbitsgen.py -> coq/gen/QBitsGen.v + Link/QBitsLink.v: the legacy quantized_bits.__call__ (x*m/m_i rounded, clipped, rescaled; sign form without unsigned bits) computes exactly qb_val of the model, so the FixedThm theorems (half-step, saturation, monotone, idempotent) are about the regenerated code."),
        design_ref="DESIGN.md section 5 C02, section 10",
        note=(TB_COMMON + "Same modelling assumptions as C01. The non-idempotence of legacy quantized_bits with a constant alpha != 1 is "
              "a recorded known finding (refuted lemma with witness)."),
        technique="Coq proof over an exact rational model + bit-exact differential correspondence (vm_compute) with the TF implementation"),
    "C16": dict(
        category="proof",
        text=("Coq theorems (Properties/C16.v), unbounded in bits/integer bits: fixed x fixed, power-of-two x fixed (shifter), "
              "ternary/binary x fixed (mux), binary-0/1 x fixed (and gate) products are representable in the reported type except for "
              "most-negative x most-negative; po2 x po2 exponent sums fit for equal signedness; the 6x6 implementation-kind table equals an "
              "independent kind specification (finite). The executable transcription of the rules (QTools/Ops.v) is compared field by field "
              "with MultiplierFactory on every ordered operand pair of the lattice, and every value pair of <=4/5-bit operand types is "
              "brute-forced inside Coq. Two table entries are refuted with witnesses (known findings)."
              " Every multiplier made by the run's single MultiplierFactory is kept and re-read after all calls: the type an earlier multiplier reports must not change with later calls (histories)."),
        design_ref="DESIGN.md section 5 C16, section 10, section 10.10",
        note=(TB_COMMON + "Translator trusted (symbolic execution of the __init__ bodies; energy bookkeeping attributes dropped; quantizer conversion convert_qkeras_quantizer and get_min_max_exp tied by K). Value sets of the qtools types (QTools/Types.v) are my reading of the type fields: fixed = code*2^-(bits-sign-int_bits) "
              "two's complement; po2 = +-2^e within get_exp's range capped by max_value, plus 0 for gate outputs; ternary/binary by kind. "
              "np.log2/math.ceil are modelled by exact integer functions."),
        technique="Coq proof over the type rules; the rules (and get_exp of quantizer_impl.py) are REGENERATED from multiplier_impl.py / multiplier_factory.py on every run (tools/translate/qtoolsops.py) and link lemmas (generated = model, all operands) are re-proved; + exhaustive differential correspondence + in-Coq brute force (vm_compute)"),
    "C17": dict(
        category="proof",
        text=("Coq theorems (Properties/C17.v): for every N >= 1 the fixed-point accumulator holds any sum of N (+bias) multiplier-output "
              "codes (induction over the list); the fixed-point adder holds the sum of any two operand values, keeps the finest fraction and "
              "adds one integer bit; widening an operand never narrows adder/accumulator types. po2->fixed conversion is proved below the top "
              "exponent and refuted at it; merge Add/Maximum are refuted with witnesses (known findings). Rules compared field by field with "
              "AccumulatorFactory / IAdder / MergeFactory over the operand lattice, kernel shapes up to N=2^20."
              " The merge-layer type rules are regenerated as well (tools/translate/mergegen.py -> coq/gen/MergeGen.v: Add.__init__ and Maximum.__init__ as folds over the operand list, the factory table, the classes that only call their base constructor); Link/MergeLink.v proves gen_merge_add = merge_add and gen_merge_max = merge_max for every operand list, and C17_code_merge_add_same_int_holds_sum states where the Add rule is sound (same integer bits and signedness: exactly the fixed-point adder) next to the refuted general form. Every accumulator / adder made by the run's factories is kept and re-read after all calls (histories)."),
        design_ref="DESIGN.md section 5 C17, section 10, section 10.10",
        note=(TB_COMMON + "Translator trusted (symbolic execution of the __init__ bodies; energy bookkeeping attributes dropped; get_exp / get_min_max_exp is translated too: link_get_exp). Same value-set reading as C16. np.ceil(np.log2(n)) is compared with Z.log2_up at 2^k, 2^k+-1 (k<=20) on every run."),
        technique="Coq proof (induction over operand lists); accumulator / adder rules REGENERATED from accumulator_impl.py, adder_impl.py, adder_factory.py on every run with re-proved link lemmas; + exhaustive differential correspondence + in-Coq brute force"),
    "C03": dict(
        category="proof",
        text=("Coq theorems (Properties/C03.v) over all bit widths, max_value settings and rational inputs: the exponent lies in the "
              "configured interval, the sign follows the input, zero / sub-epsilon inputs map to the smallest code, negatives of the ReLU "
              "variant map to the smallest code (or a negative power under a slope), the exponent is the log2-nearest / floor exponent "
              "(from a proved specification of floor(log2) on rationals), a power-of-two max_value is never exceeded, the map is monotone on "
              "each sign and idempotent in 'rnd' mode; floor-mode idempotence and the leaky min() are refuted with witnesses. The model is "
              "compared with the implementation at every exponent breakpoint +-ulps, clamp edges, 0, eps, denormals and huge inputs through a "
              "float32-faithful model of the final straight-through sum. The exponent interval itself is REGENERATED on every run from "
              "_need_exponent_sign_bit_check, _get_min_max_exponents and the two constructors (tools/translate/po2gen.py -> coq/gen/Po2Gen.v); "
              "Link/Po2Link.v re-proves that it is the interval of the model for all bits / max_value, and that quadratic_approximation lowers the "
              "maximum to the largest even exponent; the generated functions are evaluated in Coq against the _min_exp/_max_exp the constructors set."
              " The rounding step is also decided exactly: the harness asks the same TensorFlow kernels for l = log(x')/log 2 on the filtered magnitude and Coq decides exponent = clip(round-half-even l) resp. clip(floor l) (exp_from_log; C03_rnd_exponent_is_nearest_to_the_returned_log_ties_to_even, C03_floor_exponent_is_floor_of_the_returned_log, checker soundness), which reaches the exact ties inside the tolerance band of the relational checker."
              " Translator po2callgen.py -> coq/gen/Po2CallGen.v + Link/Po2CallLink.v: _clip_power_of_two (epsilon test, max_value clamp, clip to the exponent interval, doubling under quadratic_approximation) with the float logarithm as oracle parameters; with the exact round/floor base-2 logarithm it IS clip_po2 of the model, and for ANY logarithm the exponent stays inside the interval."),
        design_ref="DESIGN.md section 5 C03, section 10, section 10.10",
        note=(TB_COMMON + "float32 log is an oracle: the implementation's exponent must lie between the exact exponents of x(1-2^-18) and "
              "x(1+2^-18); breakpoint shifts below that are invisible. tf.pow(2, integer) assumed exact (any inexactness shows as a mismatch)."),
        technique="Coq proof over an exact rational model (floor-log2 specification); exponent interval REGENERATED from quantizers.py on every run with re-proved link lemmas; + differential correspondence with a tolerance band for float32 log"),
    "C07": dict(
        category="proof",
        text=("Coq theorems (Properties/C07.v): both return expressions (STE and non-STE) equal surrogate + f*(quantized - surrogate) for "
              "all rationals, f=0 gives the surrogate and f=1 the quantized value; the build/update state machine returns the last factor "
              "set in every order; for the scheduler, with np.power an oracle constrained only by range/monotonicity, the factor is 0 before "
              "start, 1 from finish, monotone in the step, and for EVERY sequence of callback hooks the applied factors never decrease and "
              "every quantizer with the knob holds the latest one (induction over the hook list). Correspondence: float32-faithful mixing "
              "model vs the implementation over four storage routes; the real QNoiseScheduler driven over random schedules and hook histories."
              " Scheduler updates are also observed through tf.functions traced right after on_train_begin (the compiled training step), for quantizers used before training as well."
              " The mixture returned by quantized_linear (plain arithmetic, regenerated by lingen.py into coq/gen/LinGen.v) is proved to be the interpolation, x at factor 0 and xq at factor 1."),
        design_ref="DESIGN.md section 5 C07, section 10, section 10.10",
        note=(TB_COMMON + "np.power is a Section variable with four named hypotheses (denominator positive, 0 at 0, range, monotone); the run "
              "instantiates it with integer exponents and compares to 2^-48. Keras's Callback plumbing is replaced by stand-in model/layer objects."),
        technique="Coq proof (ring identities, induction over hook histories, oracle as Section variable) + differential correspondence"),
    "C08": dict(
        category="proof",
        text=("Coq theorems (Properties/C08.v) with the random draw as an explicit argument, hence for ALL draws: the result is floor or ceil "
              "(never further than one step), codes are fixed points, rounding up happens exactly for u <= frac(x) and floor*(1-frac)+ceil*frac "
              "= x (so the expectation under the uniform law is the input), the clipped result is one of the two codes adjacent to the clipped "
              "input, with the learning phase off the function is round-half-even; power-of-two variant: threshold and mean identity. "
              "Correspondence: tf.random.uniform is replaced by injected draws (0, frac-ulp, frac, frac+ulp, 1/2, 1-2^-24, random) and the "
              "implementation is compared exactly with a float32-faithful threshold model; phase 0 is compared bitwise with the deterministic "
              "configuration, stochastic_binary/ternary with binary/ternary. Two genuine defects were repaired (fix: commits)."
              " stochastic_round is REGENERATED on every run (tools/translate/stochgen.py -> coq/gen/StochGen.v) and Link/StochLink.v proves that at precision 1 it is the integer model sround for every rational input and every draw, so the theorems are about the code (C08_code_stochastic_round_is_the_model, C08_code_result_is_floor_or_ceil)."
              " Stochastic quantized_po2 with quadratic_approximation is judged by the Coq checker chk_po2_stoch_quad (exponent of sqrt(x), clipped, doubled)."),
        design_ref="DESIGN.md section 5 C08, section 10, section 10.10",
        note=(TB_COMMON + "K.learning_phase/K.set_learning_phase are harness stubs (absent under the pinned Keras 3: known finding). "
              "The only probabilistic assumption is that P(u <= t) = t for the uniform law; a 4096-draw statistical run is included as a test, not as proof."),
        technique="Coq proof with the random draw universally quantified + derandomised differential correspondence"),
    "C06": dict(
        category="proof",
        text=("Coq theorems (Properties/C06.v) over an expression language with dual-number semantics: for EVERY surrogate, factor and "
              "quantized expression the STE form has the surrogate's gradient and the interpolated forward value, the non-STE form has "
              "(1-f) times it, round-through has the value round(e) and the gradient of e; instances: identity (fixed point, po2, "
              "constant-scale binary/ternary), (leaky, bounded) ReLU, quantized_linear (1 inside the clip range, 0 outside), tanh' for unscaled "
              "binary/ternary (oracle). tf.GradientTape gradients of the implementation are compared with the dual-number evaluation of the "
              "hand-written return expression at random points and at every kink +-1ulp."
              " The straight-through return expressions of every quantizer class are REGENERATED on every run (tools/translate/retgen.py -> coq/gen/RetGen.v) and Link/RetLink.v proves for each, for every surrogate / quantized value / noise factor, that its gradient is the surrogate's (STE, plain) resp. (1-f) times it (use_ste=False); quantized_linear with automatic scales is generated."
              " Translator relucallgen.py -> coq/gen/ReluCallGen.v + Link/ReluCallLink.v: the unquantized surrogate x_u of quantized_relu is the (leaky) ReLU bounded by 2^integer - 2^(integer - non-sign bits), the largest code, regenerated from the source every run."),
        design_ref="DESIGN.md section 5 C06, section 10, section 10.10",
        note=(TB_COMMON + "TensorFlow's differentiation conventions are encoded in Base/Texp.v (clip closed interval, relu'(0)=alpha, "
              "stop_gradient, where by forward value) and re-validated on every run. The texp per quantizer is a hand transcription of the "
              "return expression. bernoulli/stochastic_*/ulaw/hswish not covered."),
        technique="Coq proof over a dual-number expression semantics + GradientTape differential correspondence"),
    "C18": dict(
        category="proof",
        text=("Coq theorems (Properties/C18.v), unbounded in bit widths and in the number of accumulated terms: for fixed-point weights and "
              "inputs the dot product of any representable operand codes (most-negative x most-negative corner excluded, and refuted with a "
              "witness) is a code of the layer accumulator that the data-type map reports, without bias and with a fixed-point bias on the finer "
              "grid; the auto_po2-adjusted multiplier holds every product scaled by any per-channel power-of-two scale in range; the weight-based "
              "estimator (bias added once) bounds every output for every input in the stated box, and the pre-repair formula is refuted. "
              "Correspondence: the real QTools pipeline (graph construction, activation propagation, generate_layer_data_type_map) runs on random "
              "functional models; every reported layer accumulator is compared field by field with the Coq layer model; every input, weight, "
              "bias, activation and pre-activation tensor of the running model (random and extremal weights x random, all-max, all-min, "
              "sign-aligned inputs) is tested for exact membership in its reported type (Python Fractions, extremes re-judged by Coq mem_type); "
              "analyze_accumulator is compared with the realised / vertex maximum per channel. Bridge theorems (QTools/Po2Bridge.v, QTools/LayerMap.v): every "
              "output of the quantized_bits / quantized_relu / quantized_po2 / quantized_relu_po2 models is a member of the qtools type reported for the quantizer. "
              "Kernel families include power-of-two kernels with max_value that is not a power of two and with max_value <= 1 (no exponent sign bit), activations include "
              "power-of-two and leaky ones; directed single-layer corner models. Four genuine defects repaired (two in analyze_accumulator, get_exp, po2_to_qbits)."
              " The dense / convolution branch of generate_layer_data_type_map is REGENERATED on every run (tools/translate/layermapgen.py -> coq/gen/LayerMapGen.v: multiplier, kernel accumulator over prod(kernel.shape[:-1]) resp. prod(kernel.shape[:-2]) terms, bias adder exactly with a bias, output type = accumulator.output); Link/LayerMapLink.v proves the stored entry equal to layer_mul / layer_acc, and C18_code_preactivation_fits_stored_accumulator_* restate the fixed-point pre-activation theorems about it."
              " The per-channel bound of analyze_accumulator (tools/translate/estgen.py; C18_code_estimator_bounds_every_output: the code's (n1, n0) enclose every output over the input box) and the auto power-of-two adjustment (adjust_multiplier / adjust_accumulator_for_auto_po2; C18_source_fused_accumulator_is_the_model) are regenerated as well."),
        design_ref="DESIGN.md section 5 C18, section 10.4, 10.8, 10.10",
        note=(TB_COMMON + "qtools' graph builder needs four Keras-2 accessors that Keras 3 dropped (known finding); the harness supplies them as "
              "pure accessors and qtools runs unmodified. Po2 / binary / ternary kernels are covered by the operator theorems of C16/C17 and by "
              "the membership runs here, not by a layer-level theorem. Tensors come from eager sub-models."),
        technique="Coq proof (layer-level composition of the multiplier/accumulator/adder theorems; estimator bound over Q) + differential correspondence of the real QTools pipeline and membership of real tensors in reported types"),
    "C19": dict(
        category="proof",
        text=("Coq theorems (Properties/C19.v): the admissible window positions are exactly [0, extent) for valid/same padding with any "
              "stride/dilation; for every geometry the conv2d / conv1d / dense counts equal the cardinality of the layer's loop nest (nested "
              "list_prod, length = product), for every group count, depth multiplier and number of pooling positions (three genuine defects "
              "of the count formulas were repaired by fix: commits; the pre-repair formulas are kept as refuted lemmas with their witnesses); "
              "energy entries are non-negative, the total is the floor of the exact sum and within 1 + n/200 of the printed entries, "
              "extract_energy_sum is the floor of the selected sum (QArith). Correspondence: get_operation_count on real built layers vs "
              "brute-force loop nests and the Coq formulas, Keras output extents vs the Coq extent functions; energy_estimate on synthetic layer "
              "maps and on the real QTools(model).pe() pipeline: op_cost and the inputs / outputs / parameters entries vs an independent "
              "reference of the documented placement functions (dram / sram / fixed, rd_wr_on_io, min_sram_size), totals by exact rational "
              "re-summation in Coq. get_operation_count (with is_merge_layers / is_shape_alternation_layers) is REGENERATED on every run "
              "(tools/translate/opcountgen.py -> coq/gen/OpCountGen.v); Link/OpCountLink.v re-proves for every class of every dispatch arm and all "
              "dimensions that it is the model formula, so the loop-nest theorems are stated about the code as it is now (C19_code_*); the "
              "generated function is also evaluated in Coq on every sampled layer and compared with the implementation's count. "
              "The operation-energy dispatch of energy_estimate (tools/translate/energygen.py -> coq/gen/EnergyGen.v: the class arms, the expression each leaves "
              "in energy_op over the operators of the layer item, the keys of the per-layer dictionary and the terms the total adds) and the two memory "
              "functions (tools/translate/memgen.py -> coq/gen/MemGen.v: the input / output override, which costs each placement pays, what rd_wr_on_io adds) "
              "are regenerated on every run as well; Link/EnergyLink.v and Link/MemLink.v prove them equal to op_cost / mem_read / mem_write of QTools/Energy.v for "
              "every class name, count, number of inputs, placement and unit cost, and C19_code_* state non-negativity, the n - 1 operations of an n-input merge layer, "
              "the MAC / pooling formulas, linearity in the count, that the total adds exactly the four printed entries, that a placement other than DRAM / SRAM costs "
              "nothing and that the placement option is irrelevant at the model's inputs and outputs -- about the code as it is now. Every op_cost and every memory "
              "entry of every layer class (merge layers with n inputs of rank r varied independently, pooling, batch normalisation, branched real models) is judged by "
              "evaluating the Coq model on the unit costs the implementation's own tables give."
              " The key-selection rule of extract_energy_sum / extract_energy_profile is regenerated as well (tools/translate/extractgen.py; an empty class rule selects nothing, a class rule beats the default)."),
        design_ref="DESIGN.md section 5 C19, section 10, section 10.10",
        note=(TB_COMMON + "Energy polynomials and log2 are float64 functions of qenergy; entries are compared with an independent float64 "
              "recomputation (a test), sums exactly. QTools(model) runs under the four accessor shims described for C18."),
        technique="Coq proof (loop-nest cardinality, QArith sums, energy dispatch and placement model) over models regenerated from source by three translators + differential correspondence on real layers and the real QTools pipeline"),
    "C09": dict(
        category="proof",
        text=("Coq theorems (Properties/C09.v): for every class description (parameters with defaults, emitted keys) and ALL option values, "
              "from_config(get_config(o)) succeeds iff every key is a constructor parameter, agrees with o on every emitted parameter and has "
              "the default elsewhere, hence computes the same function when every semantic parameter is emitted. The class table is "
              "REGENERATED from /repo/qkeras/quantizers.py on every run by a fail-closed Python-ast translator and the finite obligations "
              "(all 14 classes accept their own config; every function-changing constructor option is a get_config key; registry by class "
              "name) are re-proved by vm_compute. Correspondence: every class over its option lattice through from_config, keras "
              "serialize/deserialize and get_quantizer(dict), outputs and scales compared bitwise. One genuine defect repaired (fix: commit)."),
        design_ref="DESIGN.md section 5 C09, section 10",
        note=(TB_COMMON + "Translator tools/translate/qmeta.py (about 200 lines, Python ast) is trusted to extract constructor parameters and "
              "get_config keys; unknown shapes make it emit translation_ok = false. Which parameters are semantic is a hand-written table "
              "(all but var_name, use_variables, use_ste). get_quantizer(dict) is broken under the pinned Keras 3 (known finding)."),
        technique="Coq proof (generic record round trip) + model regenerated from source by a translator + differential correspondence"),
    "C10": dict(
        category="proof",
        text=("Coq theorems (Properties/C10.v) over a string-level model of safe_eval.py: integer literals (all of Z, via the standard "
              "library's decimal printer/parser), booleans, None and float tokens are read back as themselves; positional items are "
              "converted one by one in order; a positional item after a keyword item is rejected for EVERY item list; the model has no "
              "evaluation construct and the set of names called anywhere in the CURRENT safe_eval.py (regenerated by the translator) is "
              "inside an allow-list without eval/exec/compile/__import__/getattr. For str(q) the __str__ emission tables are regenerated "
              "from source: positional flags are in constructor order for every class and prefix-closed for every valuation of the guards "
              "except four recorded classes. Correspondence: generated argument strings through the real GetParams/safe_eval vs the Coq "
              "parser vs Python's own eval; get_quantizer(str(q)) over the C09 option lattice. Three genuine defects repaired (fix: commits)."
              " Option values needing many digits (float32(v)/3) must round-trip through str() bitwise."),
        design_ref="DESIGN.md section 5 C10, section 10, section 10.10",
        note=(TB_COMMON + "pyparsing's tokenisation is modelled (split at commas, key [^=,)\\s]+, value [^,)]*) and compared on every "
              "string; Python float() is an oracle (tokens compared in Coq, values in the harness). The literal grammar has no blank before a "
              "comma and number lists only as keyword values in numpy print form. Translator tools/translate/qmeta.py trusted, fail-closed."),
        technique="Coq proof over a string-level parser model + tables regenerated from source by a translator + differential correspondence"),
    "C04": dict(
        category="proof",
        text="Coq theorems (Properties/C04.v): binary codes are in {-1,+1} ({0,1} in 0/1 mode) with the sign of the input and zero positive; ternary codes are in {-1,0,+1}, zero exactly when |x| is below the threshold, otherwise the sign; the least-squares scale s (s*sum q^2 = sum x q) minimises the squared error over ALL scales for every group (QArith) and is non-negative for sign codes; soundness of the element and group checkers. Correspondence (relational): for every group of every tensor the implementation's inputs, outputs and reported scale are judged in Coq with exact rationals: output = float32 STE sum of scale*code, codes follow the sign/threshold rule, scale >= 0, constant per group, equal to the least-squares optimum (2^-17), power of two within bounds for auto_po2. Translator (tools/translate/btgen.py -> coq/gen/BinTernGen.v, regenerated every run; Link/BinTernLink.v): binary.__call__, ternary.__call__ and _get_least_squares_scale are executed symbolically for every kind of alpha; the arithmetic that yields the binary code, the ternary mask*sign product and one refinement step of the data-dependent ternary scale are proved equal to the model codes for every input (the step is zero exactly when |x| <= scale/2, tie included), and the tables of surrogate (x or tanh x), scale source, threshold source and least-squares formula are proved equal to the hand tables the correspondence harness assumes.",
        design_ref="DESIGN.md section 5 C04, section 10, section 10.10",
        note=(TB_COMMON + 'tf reductions and float32 log/tanh are oracles: least-squares relation judged to 2^-17, the po2 exponent inside the band of LS*(1+-2^-12); grouping (last axis / scale_axis / elements_per_scale blocks) applied by the harness as documented.'),
        technique="Coq proof (codes, least-squares optimality) + certified relational checker evaluated by vm_compute on the implementation's data"),
    "C05": dict(
        category="proof",
        text="Coq theorems (Properties/C05.v): soundness of the checkers -- a passing element IS the float32 straight-through sum of (exposed scale)*(integer code) with |code| <= 2^(bits-1)-1 (quantized_bits) resp. clip_min <= code <= clip_max (quantized_linear); the code fits the declared width; scale invariance of the 'auto' codes in exact arithmetic; least-squares optimality of the po2 refinement. Correspondence (relational): every group of elements sharing one exposed scale, over bits/integer/alpha/scale_axis/elements_per_scale/exponent bounds/post_training_scale and tensors incl. zero channels and 1e-5..1e5 magnitudes: scale positive, 'auto' maps the channel maximum exactly onto the top code without clipping any element, 'auto_po2' scales are powers of two within bounds, outputs finite, 2^k equivariance of 'auto' bitwise. The shape helpers behind elements_per_scale (_get_unrolled_shape / _get_rolled_back_shape) are modelled in Quant/Shape.v: rolling back what was unrolled is the identity exactly when the factor divides the dimension (with the refuting witness otherwise), the number of elements is preserved, the new axes are (dim / factor, factor) in place; the real helpers are compared with the model exhaustively over small shapes, single axes and lists of axes. Translator lingen.py -> coq/gen/LinGen.v (regenerated every run) + Link/LinAutoLink.v: for quantized_linear(alpha='auto') the scale formula of _get_quantization_scale_from_max_data is proved to cover its scale group -- for every multi-bit signed format, every group maximum and every element |x| <= max, the code is in range and within half a quantization step of x; unsigned: the maximum is mapped onto the top code.",
        design_ref="DESIGN.md section 5 C05, section 10, section 10.10",
        note=(TB_COMMON + "The data-dependent scale is produced by tf reductions / float32 log that are not modelled: only the exposed scale is used. 'auto' no-clipping judged with a 2^-18 band. One known finding (legacy auto scale 0 for an all-zero channel)."),
        technique="certified relational checker (soundness proved in Coq) evaluated by vm_compute on the implementation's data"),
    "C11": dict(
        category="proof",
        text=("The call methods of 13 layer classes (QDense, QConv1D/2D, QConv2DTranspose, QDepthwiseConv2D, QSeparableConv1D/2D, "
              "QScaleShift, QAveragePooling2D, QGlobalAveragePooling2D, QSimpleRNNCell, QLSTMCell, QGRUCell) are symbolically executed on "
              "every run into data-flow expressions (tools/translate/layercalls.py). Coq theorems (Properties/C11.v): a sound decision "
              "procedure for equality of layer programs under EVERY interpretation of the TensorFlow operations, every weight, input and flag "
              "setting; the generated program of each feed-forward layer equals the stock computation on quantized weights followed by the "
              "activation; for all weight-bearing layers and the three recurrent cells (both implementations, reset_after, dropout branches) "
              "erasing the quantizers gives the same data flow whichever quantizers are configured; reported quantizers are the applied ones in "
              "weight order. Differential: random geometries/weights/quantizers against stock Keras layers with quantizer(weights); cells "
              "against the stock cell equations. One genuine defect repaired (QGRUCell, fix: commit)."
              " deconv_output_length (the output size of QConv2DTranspose) is regenerated as well (tools/translate/deconvgen.py): Keras formulas for every padding / output_padding, valid length = max(written positions, stride slots)."),
        design_ref="DESIGN.md section 5 C11, section 10, section 10.10",
        note=(TB_COMMON + "TensorFlow/Keras ops are uninterpreted (bilinearity etc. is not needed for drop-in equality). Op aliases and the "
              "weight-attribute list of the translator are trusted; it fails closed on unknown syntax. Recurrent wrapper layers do not build "
              "under the pinned Keras 3 (known finding): the cells are driven through their unbound call."),
        technique="model regenerated from source by a symbolic-execution translator + Coq decision procedure with soundness proof + differential correspondence"),
    "C12": dict(
        category="proof",
        text=("Coq theorems (Properties/C12.v) over every layer list and every dictionary: layer names, count and order are preserved; a "
              "layer whose lookup finds nothing (and every layer of an unknown class, and everything under an empty dictionary) is returned "
              "unchanged; a selected layer becomes 'Q'+class with exactly the looked-up kernel/bias strings; biasless layers never get a bias "
              "quantizer; a name entry takes precedence over the class entry; relu/tanh/sigmoid map to quantized_*(bits), other activations are "
              "untouched. Correspondence: random sequential/branched Keras models x random dictionaries: the JSON that model_quantize hands to "
              "the loader is compared layer by layer with the Coq function; connectivity, non-quantization hyper-parameters, output shapes, "
              "transferred weights (including batch-norm moving statistics and frozen layers), and non-modification of the source model and of the caller's dictionary "
              "are checked on the real objects. The Activation branch is modelled in full (Convert/Adaptive.v): QActivation and QAdaptiveActivation entries, the "
              "prefer_qadaptiveactivation switch, parameter stripping and total_bits of an adaptive entry, proved to be a conservative extension of the base function; "
              "directed models contain every weighted layer kind with and without a bias. The ReLU-layer branch is modelled too (Convert/Relu.v, a conservative "
              "extension again): a Keras ReLU layer is looked up under its name, then under QActivation; a plain string converts it, a per-activation map converts it only "
              "through the key its slope selects (relu / leakyrelu), QAdaptiveActivation entries never touch it; plain, leaky and capped ReLU layers are generated in rotation."
              " The ReLU-layer branch itself is REGENERATED on every run (tools/translate/relugen.py -> coq/gen/ReluGen.v, abstract execution over class / config keys x slope sign x lookup result) and Link/ReluLink.v proves its outcome equal to convert_relu for every dictionary, layer and slope sign; C12_source_leakyrelu_never_converted states the LeakyReLU finding about the regenerated code."),
        design_ref="DESIGN.md section 5 C12, section 10, section 10.10 ",
        note=(TB_COMMON + "Keras model (re)construction is runtime behaviour outside the model. Recurrent, Bidirectional, BatchNormalization and "
              "folded layers are not generated (they do not build under the pinned Keras 3); SeparableConv and LeakyReLU conversions are "
              "known findings."),
        technique="Coq proof over an executable model of the conversion (Convert/ModelQuantize.v); the dictionary lookup get_config and the activation map quantize_activation are REGENERATED from qkeras/utils.py on every run (tools/translate/convertgen.py) with re-proved link lemmas; + differential correspondence on generated (model, dictionary) pairs"),
    "C13": dict(
        category="translation_validation",
        text=("Two halves. (1) Proof, over tables regenerated from /repo on every run: every registered quantizer and every core quantized "
              "layer / wrapper class is a key of the custom-object table (so reloading needs no user objects); every quantizer rebuilds from "
              "its own configuration and emits every function-changing option; the generic configuration round-trip theorem for ALL option "
              "values (Coq, vm_compute obligations). (2) Bit-identical predictions through Keras (de)serialisation and HDF5 cannot be "
              "expressed in an executable Gallina model: that half is decided by running the three routes (JSON rebuild, clone_model, .h5 "
              "save + load_qmodel without custom objects) on random quantized models over the runnable layer classes and a 15 x 13 quantizer "
              "option set, comparing eager outputs bitwise and get_quantizers() strings. One genuine defect repaired (fix: commit)."
              " The get_config of every quantized LAYER class is regenerated too (tools/translate/layermeta.py -> coq/gen/LayerMeta.v): every *_quantizer constructor parameter is a configuration key of the class or of the quantized class it extends, and every quantizer / activation key is read from the attribute of its own name (vm_compute over the regenerated table). Models with frozen layers (none / one / all) and BatchNormalization between quantized layers are generated."),
        design_ref="DESIGN.md section 5 C13, section 8, section 10, section 10.10",
        note=(TB_COMMON + "The prediction-preservation half is translation validation (programs = models run, disagreements_checked = route runs). "
              "HDF5, Keras deserialisation and eager execution are trusted runtime. Layers that do not build under the pinned Keras 3 "
              "(QBatchNormalization, folded, recurrent wrappers) are not generated."),
        technique="Coq obligations over translator-generated tables (quantizer classes, custom-object table, get_config of every layer class) + differential round-trip runs (translation validation)"),
    "C14": dict(
        category="proof",
        text=("Coq theorems (Properties/C14.v), generic in the tensor type, the layer functions, the number of layers and weights: after the "
              "export loop every weight is its quantizer applied once to the previous weight; for idempotent (data-independent) quantizers the "
              "export keeps every prediction and a second export changes nothing (instantiated for any chain of fixed-point layers through the "
              "C02 idempotence theorem); the power-of-two tuple (sign, round(log2|w|)) rebuilds every output of the C03 quantizer models; the "
              "auto_po2 tuple satisfies scale * integer = weight, the integer is the quantizer code and lies in the bit range; the batch-norm "
              "fusing terms satisfy BN(y + bias) = inv * y + fused_bias for every y (also with a quantized inverse). Correspondence: "
              "model_save_quantized_weights runs on random models over the runnable weight-bearing layers and 18 + 5 quantizer options; layer "
              "weights are compared bitwise with quantizer(previous weights), every exported tuple element is judged by Coq checkers on the "
              "float32 bits, predictions and a second export are compared bitwise; add_bn_fusing_weights is compared with the float32 "
              "evaluation-order model on stand-in layers; the freezing utility is run on functional models. Two genuine defects repaired."
              " The bookkeeping of the per-weight export loop is REGENERATED on every run (tools/translate/exportgen.py -> coq/gen/ExportGen.v: what each iteration appends to weights / signs / scales / hw_weights and assigns to has_sign / has_scale, per kind of weight quantizer; dictionary keys, guards and layer.set_weights(weights) checked structurally); Link/ExportLink.v proves it equal to Export/Book.v, whose theorems state for EVERY list of quantizer kinds that signs, scales, stored and hardware weights are the per-kind entries in order (aligned, entry i describes weight i), that the flags are raised and never reset, and refute the two slips (skipped entries, re-assigned flag) with witnesses; every exported layer is also judged by running the regenerated loop in Coq on its own quantizer kinds. Frozen layers and layers whose first weight slot has no quantizer are generated in rotation."),
        design_ref="DESIGN.md section 5 C14, section 8, section 10, section 10.10",
        note=(TB_COMMON + "find_bn_fusing_layer_pair needs four Keras-2 accessors (known finding) which the harness installs as pure accessors; the real finder then runs; "
              "QBatchNormalization does not build under the pinned Keras 3, so the fusing terms are checked on stand-in layers; rsqrt is an "
              "oracle; HDF5 writing (filename=) is not exercised; idempotence of po2 / binary / ternary instances is checked on the "
              "implementation (their exponent-level idempotence theorem is C03's)."),
        technique="Coq proof (generic export-loop theorems, tuple algebra over Q and exact rationals, alignment of the export bookkeeping REGENERATED from utils.py by tools/translate/exportgen.py with a re-proved link lemma) + differential correspondence with Coq-side tuple checkers"),
    "C15": dict(
        category="proof",
        text=("Coq theorems (Properties/C15.v, over Q, for every kernel, bias, statistic -- gamma = 0 and tiny variances included -- and every "
              "convolution that is homogeneous in the kernel): the folded layer conv(x, k*gamma*r) + (b-mu)*gamma*r + beta equals batch "
              "normalisation of conv(x,k)+b with the moving statistics; with quantizers it is conv with the quantized folded kernel plus the "
              "quantized folded bias; replacing a folded layer by a plain quantized layer holding get_folded_weights (unfolding) computes the "
              "same value. Correspondence: the unbound call and get_folded_weights of QConv2DBatchnorm and QDepthwiseConv2DBatchnorm on a "
              "stand-in self at training=False over folding mode, use_bias, center/scale, strides, padding, dilation, statistics and "
              "quantizers against conv -> batch norm computed with TensorFlow ops (2e-4 relative). In addition the REAL layer classes are built "
              "through a Keras-2 style batch-norm stand-in installed in the layers namespace of the two qkeras modules (bookkeeping only): layer(x, training=False), "
              "get_folded_weights, and the real bn_folding_utils.unfold_model on functional models of one or two folded layers (classes, folded weights, "
              "quantizers and predictions of the unfolded model). One genuine defect repaired (center=False, fix: f652379)."
              " get_folded_weights of both folded classes is REGENERATED on every run (tools/translate/foldgen.py -> coq/gen/FoldGen.v, eight option combinations of use_bias / center / scale); Link/FoldLink.v proves it equal to inv / folded_bias of BN/Fold.v with absent parameters at their neutral values, and C15_code_*_folded_weights_are_conv_then_batchnorm state the folding equivalence about the code's own folded kernel and bias."),
        design_ref="DESIGN.md section 5 C15, section 10, section 10.10",
        note=(TB_COMMON + "Convolution homogeneity and rsqrt are Section hypotheses/variables. The folded classes and convert/unfold utilities do "
              "not run under the pinned Keras 3 (two known findings): the anchored method bodies are executed on a duck-typed self."),
        technique="Coq proof (field identity with the convolution as a Section variable; get_folded_weights REGENERATED from both folded classes by tools/translate/foldgen.py with re-proved link lemmas) + differential correspondence through unbound methods and the real layer classes"),
    "C20": dict(
        category="proof",
        text=("Coq theorems (Properties/C20.v): for EVERY reference layer list, limit dictionary (numeric limits and lists, regex patterns in any order), "
              "quantization configuration, regex match table and tuner choice function (= every hyper-parameter assignment), each quantizer handed "
              "out by _get_quantizer comes from the configuration of a role using that slot and obeys the limit slot of the pattern / class the layer "
              "resolves to; every pick made while building a trial obeys its limit (fold invariant over quantize_model); layers outside the limits "
              "get no quantizer; only layers at layer_indexes receive entries; a pattern group shares and records one choice per slot. Over the reals: "
              "the forgiving factor is 0 at the reference size, positive below, negative above and strictly decreasing on the whole positive axis. "
              "Size model: elements x bits, narrower quantizers never enlarge it. Correspondence: AutoQKHyperModel.quantize_model runs with a scripted "
              "tuner on generated references x limits x layer_indexes x configurations, ALL assignments for small spaces; the q_dict handed to "
              "model_quantize is compared with the Coq select model and judged directly against the limits; delta() signs / order and "
              "compute_model_size are compared with the executable models; two directed cases (role words in layer names, two separable layers under "
              "different limits), filter-scaling runs with exception patterns, and a comparison of the quantizers the built trial model really carries with the tuner's choices. Four genuine defects repaired. "
              "_adjust_limit (AutoQ/Limits.v): a short per-class limit list is padded role by role from the default (3- or 4-element, the recurrent entry skipped for "
              "non-recurrent classes), complete lists are untouched, the one-slice padding is refuted; every adjusted list of the runs is compared with an independent "
              "role-by-role reference and with the Coq pad_limit."
              " ForgivingFactorBits._act_size is REGENERATED on every run (tools/translate/sizegen.py -> coq/gen/SizeGen.v) over layer kinds x descriptors of the activation object; Link/SizeLink.v: whenever the code returns a size it is the model's, quantizer objects are always sized (genuine defect repaired, fix 608f79a), fused plain activations count at the reference width."
              " The role dispatch of _get_quantizer is regenerated too (tools/translate/rolegen.py; Link/RoleLink.v: equal to field_of_head for every role string; C20_code_role_slots)."),
        design_ref="DESIGN.md section 5 C20, section 10.4, 10.8, 10.10",
        note=(TB_COMMON + "The delta theorems use Coq's Reals: the standard library's real-number axioms (ClassicalDedekindReals.sig_forall_dec, "
              "sig_not_dec, FunctionalExtensionality.functional_extensionality_dep, Classical_Prop.classic) are the only assumptions, as Print "
              "Assumptions reports; everything else is closed. re.match is an oracle table; the installed keras_tuner does not import (known "
              "finding), the tuner is a scripted object; tune_filters='none'; recurrent / separable references are not generated."),
        technique="Coq proof (fold invariants over an executable model of the search-space construction; real analysis for the forgiving factor) + differential correspondence of the captured quantization dictionary, exhaustive over small hyper-parameter spaces"),
}

NOT_YET = "check not built yet in this development (design in DESIGN.md section 5); not a claim that proof is inapplicable"


def main():
  props = [json.loads(l)["id"] for l in open(os.path.join(VERIF, "properties.jsonl"))]
  checks = []
  for p in props:
    if p not in CHECKS:
      continue
    c = CHECKS[p]
    if not os.path.exists(os.path.join(VERIF, "tools", "checks", p.lower() + ".py")):
      continue
    checks.append({
        "property_id": p,
        "quick_cmd": f"./check {p} --tier quick",
        "thorough_cmd": f"./check {p} --tier thorough",
        "evidence_file": f"/verif/evidence/{p}.json",
        "replay_cmd_template": f"./check {p} --replay {{path}}",
        "engine": "coq-models+correspondence",
        "level_claimed": {"category": c["category"], "text": c["text"], "design_ref": c["design_ref"]},
        "level_note": c["note"],
        "technique": c["technique"],
    })
  claimed = {c["property_id"] for c in checks}
  m = {
      "version": 1,
      "setup_cmd": "./setup.sh",
      "hooks": {
          "guard": "QKERAS_VERIF",
          "enable": "no source hooks in /repo; QKERAS_VERIF=1 is set by the harness and only switches harness-side substrate stubs under /verif/tools/harness/env.py",
          "baseline_off_cmd": "cd /repo && /venv/bin/python -m pytest -ra -q -p no:cacheprovider --timeout=900 --continue-on-collection-errors",
          "source_commits": [],
          "add_only": True,
      },
      "engines": [{
          "name": "coq-models+correspondence",
          "path": "/verif/coq (theories, gen), /verif/tools (translate, harness, checks)",
          "serves_properties": sorted(claimed),
          "kind_free_text": "Coq 8.16 development (models + theorems), Python-ast translator regenerating Gallina from /repo, differential correspondence runs evaluated by vm_compute",
      }],
      "checks": checks,
      "notes": "See DESIGN.md. known_findings.jsonl lists genuine defects recorded rather than repaired.",
      "not_applicable": [{"property_id": p, "reason": NOT_YET} for p in props if p not in claimed],
  }
  with open(os.path.join(VERIF, "MANIFEST.json"), "w") as f:
    json.dump(m, f, indent=1)
  print("claimed:", sorted(claimed))


if __name__ == "__main__":
  main()

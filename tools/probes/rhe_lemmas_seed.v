From Coq Require Import ZArith Bool Lia ZifyBool.
Ltac Zify.zify_post_hook ::= Z.to_euclidean_division_equations.
Open Scope Z_scope.
Definition rhe (a b : Z) : Z :=
  let q := a / b in let r := a mod b in
  if 2*r <? b then q else if b <? 2*r then q+1 else if Z.even q then q else q+1.
Definition clip (lo hi x : Z) := Z.max lo (Z.min hi x).
Lemma rhe_half a b : 0 < b -> 2 * Z.abs (rhe a b * b - a) <= b.
Proof. intros Hb. unfold rhe. destruct (2 * (a mod b) <? b) eqn:E1; [lia|].
  destruct (b <? 2 * (a mod b)) eqn:E2; [lia|]. destruct (Z.even (a / b)); lia. Qed.
Lemma rhe_bounds a b : 0 < b -> a / b <= rhe a b <= a / b + 1.
Proof. intros Hb. unfold rhe. destruct (2 * (a mod b) <? b); [lia|].
  destruct (b <? 2 * (a mod b)); [lia|]. destruct (Z.even (a / b)); lia. Qed.
Lemma rhe_mono a a' b : 0 < b -> a <= a' -> rhe a b <= rhe a' b.
Proof. intros Hb H.
  assert (Hq : a / b <= a' / b) by (apply Z.div_le_mono; lia).
  destruct (Z.eq_dec (a / b) (a' / b)) as [E|N].
  - assert (Hr : a mod b <= a' mod b) by nia.
    unfold rhe. rewrite <- E.
    destruct (2 * (a mod b) <? b) eqn:E1; destruct (2 * (a' mod b) <? b) eqn:E1';
    destruct (b <? 2 * (a mod b)) eqn:E2; destruct (b <? 2 * (a' mod b)) eqn:E2';
    destruct (Z.even (a / b)); lia.
  - pose proof (rhe_bounds a b Hb). pose proof (rhe_bounds a' b Hb). lia.
Qed.
Lemma rhe_int k b : 0 < b -> rhe (k*b) b = k.
Proof. intros Hb. unfold rhe. rewrite Z.div_mul, Z.mod_mul by lia. simpl. destruct (0 <? b) eqn:E; lia. Qed.
Lemma code_range lo hi a b : lo <= hi -> lo <= clip lo hi (rhe a b) <= hi.
Proof. unfold clip; lia. Qed.
Print Assumptions rhe_mono.

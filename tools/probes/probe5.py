import os, sys, types, traceback
os.environ["TF_CPP_MIN_LOG_LEVEL"]="3"
import numpy as np, tensorflow as tf
import tensorflow.keras.backend as K
_phase=[0]
K.learning_phase=lambda: bool(_phase[0])
K.set_learning_phase=lambda v: _phase.__setitem__(0,int(v))
from tensorflow.keras import layers as L, Model, Sequential, Input
from qkeras import *
import qkeras.quantizers as QQ
def t(name, f):
    try:
        r=f(); print("OK  ", name, "->", (str(r)[:400]).replace("\n"," "))
        return r
    except Exception as e:
        print("FAIL", name, "->", type(e).__name__, str(e)[:500].replace("\n"," "))
        tb=traceback.extract_tb(e.__traceback__)
        print("     at", [(os.path.basename(f.filename),f.lineno) for f in tb[-4:]])
# 1. derandomize
U=[None]
orig=tf.random.uniform
def fake_uniform(shape, minval=0, maxval=None, **kw):
    u=tf.reshape(tf.constant(U[0],dtype=tf.float32), shape)
    if maxval is None: return u
    return minval + (maxval-minval)*u
tf.random.uniform=fake_uniform
K.set_learning_phase(1)
x=tf.constant([0.3,0.3,0.3,0.3],dtype=tf.float32)
U[0]=[0.0,0.19,0.21,0.99]
t("stoch round qb(4,1,1) x=0.3 (p=1.2)", lambda: quantized_bits(4,1,1,use_stochastic_rounding=True)(x).numpy())
t("stochastic_binary train tf", lambda: stochastic_binary(alpha='auto')(tf.constant([[0.3,-1.7],[5.0,0.126]])).numpy())
tf.random.uniform=orig
K.set_learning_phase(0)
# 3. cells
from qkeras.qrecurrent import QSimpleRNNCell,QLSTMCell,QGRUCell
for c in (QSimpleRNNCell,QLSTMCell,QGRUCell):
    c.get_dropout_mask_for_cell=lambda self,inputs,training,count=1: None
    c.get_recurrent_dropout_mask_for_cell=lambda self,inputs,training,count=1: None
rng=np.random.RandomState(0)
xi=tf.constant(rng.randn(2,3).astype("float32")); h=tf.constant(rng.randn(2,4).astype("float32")); c=tf.constant(rng.randn(2,4).astype("float32"))
qb="quantized_bits(4,0,1)"
def cell(cls, states, **kw):
    cl=cls(4, **kw); cl.build((None,3)); return [np.asarray(v).shape for v in tf.nest.flatten(cl.call(xi, states))]
t("QSimpleRNNCell", lambda: cell(QSimpleRNNCell,[h],kernel_quantizer=qb,recurrent_quantizer=qb,bias_quantizer=qb,state_quantizer=qb))
t("QLSTMCell", lambda: cell(QLSTMCell,[h,c],kernel_quantizer=qb,recurrent_quantizer=qb,bias_quantizer=qb,state_quantizer=qb))
t("QGRUCell", lambda: cell(QGRUCell,[h],kernel_quantizer=qb,recurrent_quantizer=qb,bias_quantizer=qb,state_quantizer=qb))
t("QGRUCell noq", lambda: cell(QGRUCell,[h]))
# 2. harness-built graph
import networkx as nx
from qkeras.qtools import qgraph, generate_layer_data_type_map as gm, interface
from qkeras.qtools.quantized_operators import quantizer_factory
def qt():
    l1=QConv2D(4,(3,3),name="c1",kernel_quantizer=qb,bias_quantizer=qb,activation="quantized_relu(4,1)"); l1.build((None,8,8,3))
    l2=L.Flatten(name="f"); 
    l3=QDense(5,name="d1",kernel_quantizer="quantized_bits(4,0,1,alpha='auto_po2')",bias_quantizer=qb); l3.build((None,144))
    _=l3(tf.zeros((1,144)))
    layers=[l1,l2,l3]; shapes=[(None,8,8,3),(None,6,6,4),(None,144),(None,5)]
    g=nx.DiGraph()
    g.add_node(qgraph.SOURCE,layer=[None],type=[None],out_quantizer=None)
    g.add_node(qgraph.SINK,layer=[None],type=[None],out_quantizer=None)
    for i,l in enumerate(layers): g.add_node(i,layer=[l],type=[l.__class__.__name__],out_quantizer=None)
    qf=quantizer_factory.QuantizerFactory()
    src=[qf.make_quantizer(quantized_bits(8,0,1))]
    g.add_edge(qgraph.SOURCE,0,shape=shapes[0],tensor="t0",quantizer=src[0])
    for i in range(len(layers)-1): g.add_edge(i,i+1,shape=shapes[i+1],tensor="t%d"%(i+1),quantizer=None)
    g.add_edge(len(layers)-1,qgraph.SINK,shape=shapes[-1],tensor="tout",quantizer=None)
    qgraph.GraphPropagateActivationsToEdges(g)
    lm=gm.generate_layer_data_type_map(g,src,False,"fp32","fp32",False)
    d=interface.map_to_json(lm)
    return {k:{kk:v[kk] for kk in ("multiplier","accumulator","fused_accumulator","operation_count") if kk in v} for k,v in d.items() if isinstance(v,dict)}
t("harness graph qtools", qt)

import os, sys, types, traceback
os.environ["TF_CPP_MIN_LOG_LEVEL"]="3"
import numpy as np, tensorflow as tf
import tensorflow.keras.backend as K
from tensorflow.keras import layers as L, Model, Sequential, Input
from qkeras import *
from qkeras.utils import *
def t(name, f):
    try:
        r=f(); print("OK  ", name, "->", (str(r)[:300]).replace("\n"," "))
        return r
    except Exception as e:
        print("FAIL", name, "->", type(e).__name__, str(e)[:300].replace("\n"," "))
        tb=traceback.extract_tb(e.__traceback__)
        print("     at", [(os.path.basename(f.filename),f.lineno) for f in tb[-3:]])
# 1 LeakyReLU
def leaky():
    i=Input((6,)); y=L.Dense(4,name="d")(i); y=L.LeakyReLU(name="lr")(y)
    m=Model(i,y)
    return [l.__class__.__name__ for l in model_quantize(m,{"QDense":{"kernel_quantizer":"quantized_bits(4,0,1)","bias_quantizer":"quantized_bits(4,0,1)"},"QActivation":{"leakyrelu":"quantized_relu(4,0,negative_slope=0.125)"}},4).layers]
t("model_quantize LeakyReLU", leaky)
def relu():
    i=Input((6,)); y=L.Dense(4,name="d")(i); y=L.ReLU(name="r")(y)
    m=Model(i,y)
    return [l.__class__.__name__ for l in model_quantize(m,{"QActivation":{"relu":"quantized_relu(4,0)"}},4).layers]
t("model_quantize ReLU", relu)
# 3 factories
from qkeras.qtools.quantized_operators import quantizer_factory, multiplier_factory, accumulator_factory, adder_factory, merge_factory
qf=quantizer_factory.QuantizerFactory()
def merge():
    a=qf.make_quantizer(quantized_bits(8,0,1)); b=qf.make_quantizer(quantized_bits(8,7,1))
    o=merge_factory.MergeFactory().make_quantizer([(a,{}),(b,{})],"Add").output
    return (o.bits,o.int_bits,o.is_signed)
t("merge add (8,0)+(8,7)", merge)
def po2m():
    w=qf.make_quantizer(quantized_po2(4,max_value=1)); x=qf.make_quantizer(quantized_bits(8,0,1))
    m=multiplier_factory.MultiplierFactory().make_multiplier(w,x)
    return (m.implemented_as(), m.output.bits, m.output.int_bits, w.get_min_max_exp(), quantized_po2(4,max_value=1)._min_exp)
t("po2(4,max=1) x qb(8,0)", po2m)
# 4 groups op count
def oc():
    from qkeras.qtools.qtools_util import get_operation_count
    l=QConv2D(4,(3,3),groups=2,kernel_quantizer="quantized_bits(4,0,1)"); l.build((None,8,8,4))
    return get_operation_count(l,(None,8,8,4)), l.get_weights()[0].shape
t("op count groups=2", oc)
# 6 floor exactness
x=np.array([2.0**k for k in range(-64,64)],dtype=np.float32)
for mode in ["rnd","floor"]:
    y=quantized_po2(8,log2_rounding=mode)(tf.constant(x)).numpy()
    print(mode,"bits=8 idempotent on 2^k k=-64..63:", np.array_equal(x,y), [(np.log2(a),np.log2(abs(b))) for a,b in zip(x,y) if a!=b][:6])
# 7 h5 with quantized_linear
def h5():
    i=Input((6,)); y=QDense(4,kernel_quantizer=quantized_linear(4,0),bias_quantizer="quantized_po2(4)",name="d")(i); y=QActivation("quantized_tanh(4)")(y)
    m=Model(i,y); p="/tmp/scratch/ql.h5"; m.save(p); m2=load_qmodel(p)
    xx=np.random.RandomState(0).randn(3,6).astype("float32")
    return np.array_equal(m(xx).numpy(), m2(xx).numpy()), [str(q) for q in m2.layers[1].get_quantizers()]
t("h5 quantized_linear", h5)

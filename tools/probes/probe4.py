import os
os.environ["TF_CPP_MIN_LOG_LEVEL"]="3"
import numpy as np, tensorflow as tf
from qkeras import *
print("round ties", tf.round(tf.constant([0.5,1.5,2.5,-0.5,-1.5,-2.5])).numpy())
x=np.array([2.0**k for k in range(-8,8)],dtype=np.float32)
for mode in ["rnd","floor"]:
    q=quantized_po2(6,log2_rounding=mode)
    y=q(tf.constant(x)).numpy()
    print(mode, "idempotent on 2^k:", np.all(y==x), [(a,b) for a,b in zip(x,y) if a!=b][:8])
    q=quantized_relu_po2(6,log2_rounding=mode)
    y=q(tf.constant(x)).numpy()
    print(mode, "relu idempotent on 2^k:", np.all(y==x), [(a,b) for a,b in zip(x,y) if a!=b][:8])
q=quantized_po2(4); print(q._min_exp,q._max_exp, q(tf.constant([0.0,1e-9,-1e-9,1e9,-1e9])).numpy())
q=quantized_po2(4,max_value=1); print(q._min_exp,q._max_exp, q(tf.constant([0.0,1e-9,-1e-9,0.3,1e9,-1e9])).numpy(), q.max(), q.min())
q=quantized_po2(4,max_value=0.5); print(q._min_exp,q._max_exp, q(tf.constant([0.0,1e-9,-1e-9,0.3,1e9,-1e9])).numpy(), q.max(), q.min())
q=quantized_relu_po2(4,negative_slope=0.25); print(q._min_exp,q._max_exp, q(tf.constant([0.0,1e-9,-1e-9,-3.0,1e9,-1e9])).numpy(), q.max(), q.min())
# quantized_bits constant alpha and max
q=quantized_bits(4,0,1,alpha=2.0); print("qb alpha2", q(tf.constant([5.0,-5.0,0.3])).numpy(), q.max(), q.min())
# config round trip loss
q=quantized_bits(4,0,1,alpha='auto_po2',scale_axis=0); q2=quantized_bits.from_config(q.get_config())
w=np.random.RandomState(1).randn(4,3).astype("float32")*np.array([[1],[10],[100],[1000]],dtype="float32")
print("scale_axis lost:", q2.scale_axis, np.array_equal(q(w).numpy(), q2(w).numpy()))
b=binary(alpha='auto',scale_axis=0); b2=binary.from_config(b.get_config()); print("binary scale_axis lost", np.array_equal(b(w).numpy(), b2(w).numpy()))
# get_quantizer(serialize(q))
ser=tf.keras.utils.serialize_keras_object(q)
try:
    print("get_quantizer(serialized)", get_quantizer(ser))
except Exception as e: print("get_quantizer(serialized) FAIL", type(e).__name__, str(e)[:100])
# str reparse
for qq in [quantized_bits(4,1,1,alpha='auto'), quantized_relu(4,1,negative_slope=0.25), quantized_po2(4,max_value=2), binary(alpha='auto',elements_per_scale=[2,4],scale_axis=[0,1]), ternary(alpha='auto'), quantized_tanh(4,symmetric=True), quantized_sigmoid(4,use_real_sigmoid=True), quantized_relu(4,1,use_stochastic_rounding=False,relu_upper_bound=2.0), quantized_po2(4,use_stochastic_rounding=True)]:
    try:
        s=str(qq); r=get_quantizer(s); print("str ok", s, "->", str(r), r.__dict__ if False else "")
    except Exception as e: print("str FAIL", qq.__class__.__name__, type(e).__name__, str(e)[:120])

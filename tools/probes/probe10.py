import os
os.environ["TF_CPP_MIN_LOG_LEVEL"]="3"
import numpy as np, tensorflow as tf
import tensorflow.keras.backend as K
from qkeras import *
def grad(f,x):
    xv=tf.Variable(np.array(x,dtype=np.float32))
    with tf.GradientTape() as t: y=tf.reduce_sum(f(xv))
    g=t.gradient(y,xv); return None if g is None else g.numpy().tolist()
xs=[-2.0,-1.0,-0.5,0.0,0.5,0.9375,1.0,2.0]
print("K.clip[-1,1]", grad(lambda v: K.clip(v,-1.0,1.0),xs))
print("K.relu", grad(lambda v: K.relu(v),xs))
print("K.relu a=.25", grad(lambda v: K.relu(v,0.25),xs))
print("tf.where(x<=1,relu,1)", grad(lambda v: tf.where(v<=1.0,K.relu(v),tf.ones_like(v)),xs))
print("round", grad(lambda v: tf.round(v),xs)); print("sign", grad(lambda v: tf.sign(v),xs)); print("abs", grad(lambda v: tf.abs(v),xs))
print("qb(4,0,1)", grad(quantized_bits(4,0,1),xs))
print("qb(4,0,1) noste f=.5", grad(quantized_bits(4,0,1,use_ste=False,qnoise_factor=0.5),xs))
print("qlinear(4,0,1)", grad(quantized_linear(4,0,1),xs))
print("qrelu(4,0)", grad(quantized_relu(4,0),xs))
print("qrelu(4,0,slope .25)", grad(quantized_relu(4,0,negative_slope=0.25),xs))
print("po2(4)", grad(quantized_po2(4),xs)); print("relu_po2(4)", grad(quantized_relu_po2(4),xs))
print("binary()", grad(binary(),xs)); print("binary(alpha=1)", grad(binary(alpha=1.0),xs)); print("ternary(alpha=1)", grad(ternary(alpha=1.0),xs))
print("qtanh(4)", grad(quantized_tanh(4),xs)); print("qsigmoid(4)", grad(quantized_sigmoid(4),xs))
print("qb auto_po2", grad(quantized_bits(4,0,1,alpha='auto_po2'),xs)); print("ql auto", grad(quantized_linear(4,0,1,alpha='auto'),xs))

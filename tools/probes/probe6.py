import os
os.environ["TF_CPP_MIN_LOG_LEVEL"]="3"
import numpy as np, tensorflow as tf
import tensorflow.keras.backend as K
from qkeras import *
q=quantized_bits(4,0,1,alpha='auto_po2')
w=np.random.RandomState(1).randn(6,3).astype("float32")*np.array([0.05,1,20],dtype="float32")
wq=q(tf.constant(w)).numpy()
m=2.0**(q.bits-q.keep_negative); m_i=2.0**q.integer
scale=q.scale.numpy()
hw=wq*m/m_i; sc=scale*m_i/m
print("scale attr", scale, "export scale", sc)
print("hw", hw[:2]); print("recon ok", np.array_equal(sc*hw, wq)); print("hw integer?", np.all(hw==np.round(hw)), hw.min(), hw.max())
print("wq/sc", (wq/sc)[:2])

import os, traceback, sys
os.environ["TF_CPP_MIN_LOG_LEVEL"]="3"
import numpy as np, tensorflow as tf
import tensorflow.keras.backend as K
from qkeras import *
def t(name, f):
    try:
        r=f(); print("OK  ", name, "->", (str(r)[:200]).replace("\n"," "))
    except Exception as e:
        print("FAIL", name, "->", type(e).__name__, str(e)[:300].replace("\n"," "))
x=np.array([[0.3,-1.7],[5.0,0.125]],dtype=np.float32)
t("K.learning_phase", lambda: K.learning_phase())
t("qb stochastic", lambda: quantized_bits(4,1,1,use_stochastic_rounding=True)(x))
t("qrelu stochastic", lambda: quantized_relu(4,1,use_stochastic_rounding=True)(x))
t("po2 stochastic", lambda: quantized_po2(4,use_stochastic_rounding=True)(x))
t("stochastic_binary", lambda: stochastic_binary()(x))
t("stochastic_ternary", lambda: stochastic_ternary()(x))
t("binary stoch", lambda: binary(use_stochastic_rounding=True)(x))
t("ternary auto", lambda: ternary(alpha='auto')(x))
t("bernoulli", lambda: bernoulli()(x))
t("qb auto", lambda: quantized_bits(4,1,1,alpha='auto')(x))
t("qb auto_po2", lambda: quantized_bits(4,1,1,alpha='auto_po2')(x))
t("ql auto_po2", lambda: quantized_linear(4,1,1,alpha='auto_po2')(x))
t("ql auto", lambda: quantized_linear(4,1,1,alpha='auto')(x))
t("hswish", lambda: quantized_hswish(4,1)(x))
t("ulaw", lambda: quantized_ulaw(4,1)(x))
t("tanh", lambda: quantized_tanh(4)(x))
t("sigmoid", lambda: quantized_sigmoid(4)(x))
t("relu_po2", lambda: quantized_relu_po2(4)(x))
for q in [quantized_bits(4,1,1), quantized_linear(4,1), quantized_relu(4,1), quantized_po2(4), quantized_relu_po2(4), binary(), ternary(), quantized_tanh(4), quantized_sigmoid(4), quantized_ulaw(4,1), bernoulli(), stochastic_binary(), stochastic_ternary()]:
    n=q.__class__.__name__
    t("str "+n, lambda: str(q))
    t("cfg "+n, lambda: q.__class__.from_config(q.get_config()))
    t("get_quantizer(dict) "+n, lambda: get_quantizer({"class_name":n,"config":q.get_config()}))
    t("serialize "+n, lambda: tf.keras.utils.serialize_keras_object(q))
    t("deser "+n, lambda: tf.keras.utils.deserialize_keras_object(tf.keras.utils.serialize_keras_object(q)))
t("str hswish", lambda: str(quantized_hswish(4,1)))
def grad(q):
    xv=tf.Variable(x)
    with tf.GradientTape() as tape:
        y=tf.reduce_sum(q(xv))
    return tape.gradient(y,xv)
t("grad qb", lambda: grad(quantized_bits(4,1,1)))
t("grad ql", lambda: grad(quantized_linear(4,1,1)))
t("grad binary", lambda: grad(binary()))

import os, traceback, sys
os.environ["TF_CPP_MIN_LOG_LEVEL"]="3"
import numpy as np, tensorflow as tf
import tensorflow.keras.backend as K
from tensorflow.keras import layers as L, Model, Sequential, Input
from qkeras import *
from qkeras.utils import *
def t(name, f):
    try:
        r=f(); print("OK  ", name, "->", (str(r)[:160]).replace("\n"," "))
        return r
    except Exception as e:
        print("FAIL", name, "->", type(e).__name__, str(e)[:400].replace("\n"," "))
        #traceback.print_exc()
rng=np.random.RandomState(0)
x4=rng.randn(2,8,8,3).astype("float32")
x3=rng.randn(2,8,3).astype("float32")
x2=rng.randn(2,6).astype("float32")
qb="quantized_bits(4,0,1)"
def run(layer,x): 
    y=layer(x); return y.shape
t("QDense", lambda: run(QDense(5,kernel_quantizer=qb,bias_quantizer=qb),x2))
t("QConv2D", lambda: run(QConv2D(4,(3,3),kernel_quantizer=qb,bias_quantizer=qb),x4))
t("QConv2D dil/stride", lambda: run(QConv2D(4,(3,3),strides=2,padding='same',kernel_quantizer=qb,bias_quantizer=qb),x4))
t("QConv1D", lambda: run(QConv1D(4,3,kernel_quantizer=qb,bias_quantizer=qb),x3))
t("QConv1D causal", lambda: run(QConv1D(4,3,padding='causal',kernel_quantizer=qb,bias_quantizer=qb),x3))
t("QDepthwiseConv2D", lambda: run(QDepthwiseConv2D((3,3),depthwise_quantizer=qb,bias_quantizer=qb),x4))
t("QSeparableConv2D", lambda: run(QSeparableConv2D(4,(3,3),depthwise_quantizer=qb,pointwise_quantizer=qb,bias_quantizer=qb),x4))
t("QSeparableConv1D", lambda: run(QSeparableConv1D(4,3,depthwise_quantizer=qb,pointwise_quantizer=qb,bias_quantizer=qb),x3))
t("QConv2DTranspose", lambda: run(QConv2DTranspose(4,(3,3),kernel_quantizer=qb,bias_quantizer=qb),x4))
t("QSimpleRNN", lambda: run(QSimpleRNN(4,kernel_quantizer=qb,recurrent_quantizer=qb,bias_quantizer=qb,state_quantizer=qb),x3))
t("QLSTM", lambda: run(QLSTM(4,kernel_quantizer=qb,recurrent_quantizer=qb,bias_quantizer=qb,state_quantizer=qb),x3))
t("QGRU", lambda: run(QGRU(4,kernel_quantizer=qb,recurrent_quantizer=qb,bias_quantizer=qb,state_quantizer=qb),x3))
t("QAveragePooling2D", lambda: run(QAveragePooling2D((2,2),average_quantizer=qb),x4))
t("QGlobalAveragePooling2D", lambda: run(QGlobalAveragePooling2D(average_quantizer=qb),x4))
from qkeras.qmac import QScaleShift
t("QScaleShift", lambda: run(QScaleShift(weight_quantizer=qb,bias_quantizer=qb),x4))
t("QBatchNormalization", lambda: run(QBatchNormalization(),x4))
t("QConv2DBatchnorm", lambda: run(QConv2DBatchnorm(4,(3,3),kernel_quantizer=qb,bias_quantizer=qb),x4))
t("QConv2DBatchnorm batch_stats", lambda: run(QConv2DBatchnorm(4,(3,3),kernel_quantizer=qb,bias_quantizer=qb,folding_mode='batch_stats_folding'),x4))
t("QDepthwiseConv2DBatchnorm", lambda: run(QDepthwiseConv2DBatchnorm((3,3),depthwise_quantizer=qb,bias_quantizer=qb),x4))
t("QActivation", lambda: run(QActivation("quantized_relu(4)"),x4))
t("QAdaptiveActivation", lambda: run(QAdaptiveActivation("quantized_relu",4),x4))
# models
def mk():
    i=Input((8,8,3)); y=L.Conv2D(4,(3,3),name="c1")(i); y=L.BatchNormalization(name="bn")(y); y=L.Activation("relu",name="a1")(y); y=L.Flatten()(y); y=L.Dense(5,name="d1")(y); y=L.Activation("softmax",name="sm")(y)
    return Model(i,y)
m=t("keras model", mk)
qcfg={"QConv2D":{"kernel_quantizer":qb,"bias_quantizer":qb},"QDense":{"kernel_quantizer":qb,"bias_quantizer":qb},"QActivation":{"relu":"quantized_relu(4)"}}
qm=t("model_quantize", lambda: model_quantize(m,qcfg,4,transfer_weights=True))
if qm is not None:
    t("qm classes", lambda: [l.__class__.__name__ for l in qm.layers])
    t("qm predict", lambda: qm.predict(x4,verbose=0).shape)
    t("to_json rebuild", lambda: quantized_model_from_json(qm.to_json()))
    t("clone_model", lambda: clone_model(qm))
    def h5():
        p="/tmp/scratch/qm.h5"; qm.save(p); return load_qmodel(p)
    t("h5 save/load", h5)
    def kk():
        p="/tmp/scratch/qm.keras"; qm.save(p); return load_qmodel(p)
    t(".keras save/load", kk)
    t("model_save_quantized_weights", lambda: list(model_save_quantized_weights(qm).keys()))
    t("print_qstats", lambda: print_qstats(qm))
    from qkeras.qtools import run_qtools
    t("QTools", lambda: run_qtools.QTools(qm,process="horowitz",source_quantizers=[quantized_bits(8,0,1)],is_inference=False,weights_path=None,keras_quantizer="fp32",keras_accumulator="fp32",for_reference=False))
    t("bn fold", lambda: model_quantize(m,qcfg,4,transfer_weights=True,enable_bn_folding=True))
    from qkeras.bn_folding_utils import unfold_model
from qkeras.estimate import *
t("import autoqkeras", lambda: __import__("qkeras.autoqkeras"))
t("import forgiving", lambda: __import__("qkeras.autoqkeras.forgiving_metrics.forgiving_bits"))

import os, sys, types, traceback
os.environ["TF_CPP_MIN_LOG_LEVEL"]="3"
import numpy as np, tensorflow as tf
import tensorflow.keras.backend as K
# ---- shims
_phase=[0]
K.learning_phase=lambda: bool(_phase[0])
K.set_learning_phase=lambda v: _phase.__setitem__(0,int(v))
kt=types.ModuleType("keras_tuner")
class _HM: 
    def __init__(self,*a,**k): pass
for n in ["HyperModel","BayesianOptimization","Hyperband","RandomSearch"]:
    setattr(kt,n,type(n,(_HM,),{}))
kt.engine=types.ModuleType("keras_tuner.engine")
sys.modules["keras_tuner"]=kt
from tensorflow.keras import layers as L, Model, Sequential, Input
from qkeras import *
from qkeras.utils import *
def t(name, f):
    try:
        r=f(); print("OK  ", name, "->", (str(r)[:300]).replace("\n"," "))
        return r
    except Exception as e:
        print("FAIL", name, "->", type(e).__name__, str(e)[:500].replace("\n"," "))
        tb=traceback.extract_tb(e.__traceback__)
        print("     at", [(os.path.basename(f.filename),f.lineno) for f in tb[-4:]])
x=np.array([[0.3,-1.7],[5.0,0.126]],dtype=np.float32)
K.set_learning_phase(1)
t("qb stochastic train", lambda: quantized_bits(4,1,1,use_stochastic_rounding=True)(x))
t("po2 stochastic train", lambda: quantized_po2(4,use_stochastic_rounding=True)(x))
t("stochastic_binary train", lambda: stochastic_binary(alpha='auto')(x))
t("stochastic_ternary train", lambda: stochastic_ternary(alpha='auto')(x))
t("binary stoch train", lambda: binary(use_stochastic_rounding=True)(x))
K.set_learning_phase(0)
t("qb stochastic inf", lambda: quantized_bits(4,1,1,use_stochastic_rounding=True)(x))
t("stochastic_binary inf", lambda: stochastic_binary()(x))
t("stochastic_ternary inf", lambda: stochastic_ternary()(x))
t("binary stoch inf", lambda: binary(use_stochastic_rounding=True)(x))
# cells
rng=np.random.RandomState(0)
xi=rng.randn(2,3).astype("float32"); h=rng.randn(2,4).astype("float32"); c=rng.randn(2,4).astype("float32")
qb="quantized_bits(4,0,1)"
def cell(cls, states, **kw):
    cl=cls(4, **kw); cl.build((None,3)); return [np.asarray(v).shape for v in tf.nest.flatten(cl.call(xi, states))]
t("QSimpleRNNCell", lambda: cell(QSimpleRNNCell,[h],kernel_quantizer=qb,recurrent_quantizer=qb,bias_quantizer=qb,state_quantizer=qb))
t("QLSTMCell", lambda: cell(QLSTMCell,[h,c],kernel_quantizer=qb,recurrent_quantizer=qb,bias_quantizer=qb,state_quantizer=qb))
t("QGRUCell", lambda: cell(QGRUCell,[h],kernel_quantizer=qb,recurrent_quantizer=qb,bias_quantizer=qb,state_quantizer=qb))
t("QGRUCell noq", lambda: cell(QGRUCell,[h]))
# autoqkeras import
t("import autoqkeras", lambda: __import__("qkeras.autoqkeras"))
def ff():
    from qkeras.autoqkeras.forgiving_metrics import ForgivingFactorBits
    f=ForgivingFactorBits(8,8,2.0,config={"default":["parameters","activations"]})
    f.reference_size=100.; f.trial_size=50.; return f.delta()
t("forgiving delta", ff)
# qtools factories
def qt():
    from qkeras.qtools.quantized_operators import quantizer_factory, multiplier_factory, accumulator_factory, adder_factory
    qf=quantizer_factory.QuantizerFactory()
    w=qf.make_quantizer(quantized_bits(4,0,1)); a=qf.make_quantizer(quantized_relu(6,2))
    m=multiplier_factory.MultiplierFactory().make_multiplier(w,a)
    acc=accumulator_factory.AccumulatorFactory().make_accumulator((3,3,8,16),m,use_bias=True)
    return (m.implemented_as(), m.output.bits,m.output.int_bits,m.output.is_signed, acc.output.bits, acc.output.int_bits)
t("qtools factories", qt)
def oc():
    from qkeras.qtools.qtools_util import get_operation_count
    l=QConv2D(4,(3,3),strides=2,padding="same",kernel_quantizer=qb); l.build((None,8,8,3))
    return get_operation_count(l,(None,8,8,3))
t("op count", oc)
def mk():
    i=Input((8,8,3)); y=QConv2D(4,(3,3),name="c1",kernel_quantizer=qb,bias_quantizer=qb)(i); y=QActivation("quantized_relu(4)",name="a1")(y); y=L.Flatten()(y); y=QDense(5,name="d1",kernel_quantizer=qb,bias_quantizer=qb)(y)
    return Model(i,y)
qm=t("qmodel", mk)
x4=rng.randn(2,8,8,3).astype("float32")
t("eager call", lambda: qm(x4).shape)
t("predict", lambda: qm.predict(x4,verbose=0).shape)
# ref shim
import keras
class _Ref:
    def __init__(self,t): self._t=t
    def deref(self): return self._t
    def __hash__(self): return id(self._t)
    def __eq__(self,o): return isinstance(o,_Ref) and o._t is self._t
keras.KerasTensor.ref=lambda self: _Ref(self)
keras.layers.Layer.output_shape=property(lambda self: tuple(self.output.shape) if not isinstance(self.output,list) else [tuple(o.shape) for o in self.output])
keras.layers.Layer.input_shape=property(lambda self: tuple(self.input.shape) if not isinstance(self.input,list) else [tuple(o.shape) for o in self.input])
t("model_save_quantized_weights", lambda: list(model_save_quantized_weights(qm).keys()))
from qkeras.qtools import run_qtools
def qtools():
    q=run_qtools.QTools(qm,process="horowitz",source_quantizers=[quantized_bits(8,0,1)],is_inference=False,weights_path=None,keras_quantizer="fp32",keras_accumulator="fp32",for_reference=False)
    e=q.pe(weights_on_memory="sram",activations_on_memory="sram",min_sram_size=8*16*1024*1024,rd_wr_on_io=False)
    return {k:(v["accumulator"]["bits"] if isinstance(v,dict) and "accumulator" in v else None) for k,v in q._output_dict.items()}, e["total_cost"]
t("QTools", qtools)
from qkeras.estimate import analyze_accumulator
t("analyze_accumulator", lambda: analyze_accumulator(qm, {"c1":(-1,1),"d1":(0,2)}))

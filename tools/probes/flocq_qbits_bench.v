From Coq Require Import ZArith List Lia.
From Flocq Require Import IEEE754.BinarySingleNaN IEEE754.Bits.
Import ListNotations.
Open Scope Z_scope.
Definition prec := 24. Definition emax := 128.
Lemma Hprec : FLX.Prec_gt_0 prec. Proof. unfold FLX.Prec_gt_0, prec; lia. Qed.
Lemma Hemax : Prec_lt_emax prec emax. Proof. unfold Prec_lt_emax, prec, emax; lia. Qed.
Definition f32 := binary_float prec emax.
Definition ofb (z:Z) : f32 := Binary.B2BSN _ _ (b32_of_bits z).
Definition tob (x:f32) : Z :=
  match x with
  | B754_zero s => if s then 2147483648 else 0
  | B754_infinity s => (if s then 2147483648 else 0) + 2139095040
  | B754_nan => 2143289344
  | B754_finite s m e _ =>
     let sb := if s then 2147483648 else 0 in
     if Z.leb 8388608 (Zpos m) then sb + (e + 150) * 8388608 + (Zpos m - 8388608)
     else sb + Zpos m
  end.
Definition mul := @Bmult prec emax Hprec Hemax mode_NE.
Definition add := @Bplus prec emax Hprec Hemax mode_NE.
Definition sub := @Bminus prec emax Hprec Hemax mode_NE.
Definition rne : f32 -> f32 := @Bnearbyint prec emax Hemax mode_NE.
Definition two_pow (k:Z) : f32 := ofb (Z.shiftl (k+127) 23).
Definition fmax (a b : f32) := match Bcompare a b with Some Lt => b | _ => a end.
Definition fmin (a b : f32) := match Bcompare a b with Some Gt => b | _ => a end.
Definition clip lo hi x := fmin (fmax x lo) hi.
Definition ofZ (z:Z) : f32 := binary_normalize prec emax Hprec Hemax mode_NE z 0 false.
(* quantized_bits(bits,int,kn,sym), alpha None, qn=1, ste *)
Definition qbits (bits int kn sym : Z) (x : f32) : f32 :=
  let ub := bits - kn in
  let m := two_pow ub in let mi := two_pow int in
  let p := @Bdiv prec emax Hprec Hemax mode_NE (mul x m) mi in
  let r := clip (ofZ (kn * (-(2^ub) + sym))) (ofZ (2^ub - 1)) (rne p) in
  let xq := @Bdiv prec emax Hprec Hemax mode_NE (mul mi r) m in
  let xq := mul (ofZ 1) xq in
  add x (mul (ofZ 1) (add (Bopp x) xq)).
Fixpoint iota (n:nat) (z:Z) := match n with O => [] | S k => z :: iota k (z+7919) end.
Definition inputs := iota 3000 1036831949. (* around 0.1.. *)
Time Eval vm_compute in (fold_left Z.add (map (fun b => tob (qbits 4 1 1 1 (ofb b))) inputs) 0).
Eval vm_compute in map (fun b => tob (qbits 4 1 1 1 (ofb b))) [1050253722; 3218708070; 1084227584; 1040187392].

import os
os.environ["TF_CPP_MIN_LOG_LEVEL"]="3"
import numpy as np, tensorflow as tf
from qkeras import *
d=np.array([1e-40,-1e-40,1.4e-45,2**-126,2**-127],dtype=np.float32)
print("mul", (tf.constant(d)*tf.constant(2.0)).numpy().view(np.uint32), (d*np.float32(2)).view(np.uint32))
print("mul .5", (tf.constant(d)*tf.constant(0.5)).numpy().view(np.uint32), (d*np.float32(.5)).view(np.uint32))
print("add", (tf.constant(d)+tf.constant(d)).numpy().view(np.uint32), (d+d).view(np.uint32))
print("div", (tf.constant(d)/tf.constant(4.0)).numpy().view(np.uint32), (d/np.float32(4)).view(np.uint32))
big=np.random.RandomState(0).rand(100000).astype(np.float32)*np.float32(1e-39)
print("big mul equal numpy:", np.array_equal((tf.constant(big)*tf.constant(0.5)).numpy(), big*np.float32(0.5)))
print("qb", quantized_bits(4,0,1)(tf.constant(d)).numpy().view(np.uint32))
print("relu", quantized_relu(4,0)(tf.constant(d)).numpy().view(np.uint32))
print("po2", quantized_po2(4)(tf.constant(d)).numpy())

import os, sys, types, traceback
os.environ["TF_CPP_MIN_LOG_LEVEL"]="3"
import numpy as np, tensorflow as tf
import tensorflow.keras.backend as K
from qkeras import *
from qkeras.qconv2d_batchnorm import QConv2DBatchnorm
def t(name, f):
    try:
        r=f(); print("OK  ", name, "->", (str(r)[:300]).replace("\n"," "))
        return r
    except Exception as e:
        print("FAIL", name, "->", type(e).__name__, str(e)[:300].replace("\n"," "))
        tb=traceback.extract_tb(e.__traceback__)
        print("     at", [(os.path.basename(f.filename),f.lineno) for f in tb[-3:]])
# zero channel auto
w=np.array([[0.0,1.0],[0.0,-2.0],[0.0,0.5]],dtype=np.float32)
for a in ["auto","auto_po2"]:
    q=quantized_bits(4,0,1,alpha=a); y=q(tf.constant(w)).numpy(); print(a,"zero channel finite:", np.all(np.isfinite(y)), y.tolist(), np.asarray(q.scale).tolist())
    q=quantized_linear(4,0,1,alpha=a); y=q(tf.constant(w)).numpy(); print("ql",a,"zero channel finite:", np.all(np.isfinite(y)), y.tolist(), np.asarray(q.scale).tolist())
for a in ["auto","auto_po2"]:
    q=binary(alpha=a); y=q(tf.constant(w)).numpy(); print("binary",a, y.tolist(), np.asarray(q.scale).tolist())
# duck typed BN fold
class FakeBN:
    def __init__(s,c,rng):
        s.gamma=tf.constant(rng.rand(c).astype("float32")+0.5); s.beta=tf.constant(rng.randn(c).astype("float32"))
        s.moving_mean=tf.constant(rng.randn(c).astype("float32")); s.moving_variance=tf.constant(rng.rand(c).astype("float32")+0.1)
        s.epsilon=1e-3; s.axis=[3]; s._param_dtype=tf.float32
    def _get_training_value(s,training): return False if training is None else training
    def _moments(s,x,axes,keep_dims): return tf.nn.moments(x,axes,keepdims=keep_dims)
    def __call__(s,x,training=None): return x
class FakeSelf: pass
def fold():
    rng=np.random.RandomState(0)
    fs=FakeSelf(); fs.batchnorm=FakeBN(4,rng); fs.ema_freeze_delay=None
    fs.kernel=tf.constant(rng.randn(3,3,3,4).astype("float32")); fs.bias=tf.constant(rng.randn(4).astype("float32")); fs.use_bias=True
    fs.strides=(1,1); fs.padding="valid"; fs.data_format="channels_last"; fs.dilation_rate=(1,1)
    fs._iteration=tf.Variable(-1,dtype=tf.int64); fs.folding_mode="ema_stats_folding"
    fs.kernel_quantizer=None; fs.kernel_quantizer_internal=None; fs.bias_quantizer_internal=None; fs.activation=None
    x=tf.constant(rng.randn(2,6,6,3).astype("float32"))
    y=QConv2DBatchnorm.call(fs,x,training=False).numpy()
    conv=tf.nn.conv2d(x,fs.kernel,1,"VALID")+fs.bias
    ref=(fs.batchnorm.gamma*(conv-fs.batchnorm.moving_mean)/tf.sqrt(fs.batchnorm.moving_variance+1e-3)+fs.batchnorm.beta).numpy()
    fw=QConv2DBatchnorm.get_folded_weights(fs)
    return float(np.max(np.abs(y-ref))), [tuple(a.shape) for a in fw]
t("duck-typed QConv2DBatchnorm.call", fold)

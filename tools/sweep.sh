#!/bin/sh
# usage: tools/sweep.sh <seed> [<seed> ...]   -- every quick check on the unchanged tree for each VERIF_SEED; prints alarms only
cd "$(dirname "$0")/.."
for s in "$@"; do
  for p in C01 C02 C03 C04 C05 C06 C07 C08 C09 C10 C11 C12 C13 C14 C15 C16 C17 C18 C19 C20; do
    VERIF_SEED=$s ./check $p --tier quick > /tmp/sweep_${s}_$p.out 2>&1; rc=$?
    n=$(grep -c '^VIOLATION' /tmp/sweep_${s}_$p.out)
    tb=$(grep -c 'Traceback' /tmp/sweep_${s}_$p.out)
    echo "seed $s $p rc=$rc violations=$n tracebacks=$tb"
    [ "$rc" != "0" ] && grep '^VIOLATION' /tmp/sweep_${s}_$p.out | head -5 && for f in $(grep '^VIOLATION' /tmp/sweep_${s}_$p.out | head -3 | sed 's/.*replay=//; s/ .*//'); do python3 -c "import json,sys; d=json.load(open('$f')); print('   ', d['what'][:600])"; done
  done
done
exit 0

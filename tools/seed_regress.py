#!/usr/bin/env python3
"""Re-run every kept seed (/verif/seeded/<id>/patch.diff) against the CURRENT checks and the CURRENT /repo HEAD.
Each lane works on its own clone of /repo under /tmp (QKERAS_REPO points the check at it), so /repo itself is
never touched; lanes of different properties run in parallel, the seeds of one property (and C16-C18, which share
generated files) sequentially.  Writes /verif/seeded/REGRESSION.md.  Evidence written by patched runs is restored."""
import concurrent.futures as cf
import glob
import json
import os
import shutil
import subprocess
import sys

VERIF = os.path.dirname(os.path.dirname(os.path.abspath(__file__)))
TMP = "/tmp/seed_regress_" + str(os.getpid())


def sh(cmd, **kw):
  return subprocess.run(cmd, shell=True, capture_output=True, text=True, **kw)


def lane(name, seeds):
  clone = os.path.join(TMP, name)
  shutil.rmtree(clone, ignore_errors=True)
  sh(f"git clone -q /repo {clone}")
  out = []
  for sid, prop in seeds:
    sd = os.path.join(VERIF, "seeded", sid)
    r = sh(f"git -C {clone} apply {sd}/patch.diff")
    if r.returncode != 0:
      out.append((sid, prop, "patch does not apply to HEAD", 0, 0))
      continue
    env = dict(os.environ, QKERAS_REPO=clone, QK_REPO=clone, TF_CPP_MIN_LOG_LEVEL="3")
    d = sh(f"/venv/bin/python {sd}/demo.py", env=env, timeout=1800)
    c = sh(f"cd {VERIF} && ./check {prop}", env=env, timeout=3600)
    txt = c.stdout + c.stderr
    viol = [l for l in txt.split("\n") if l.startswith("VIOLATION")]
    concrete = [l for l in viol if not l.rstrip().endswith("no-failing-input-found")]
    crashed = "Traceback" in txt and not viol
    status = "CRASH" if crashed else ("caught" if c.returncode == 1 and concrete else ("caught (obligation only)" if c.returncode == 1 and viol else "MISSED"))
    if d.returncode != 1:
      status += f" [demo exit {d.returncode}]"
    out.append((sid, prop, status, len(viol), len(concrete)))
    sh(f"git -C {clone} checkout -- .")
  shutil.rmtree(clone, ignore_errors=True)
  return out


def main():
  only = set(sys.argv[1:])
  seeds = {}
  for d in sorted(glob.glob(os.path.join(VERIF, "seeded", "C*-*"))):
    sid = os.path.basename(d)
    try:
      prop = json.load(open(os.path.join(d, "meta.json")))["property"]
    except (OSError, ValueError, KeyError):
      continue
    if only and prop not in only and sid not in only:
      continue
    seeds.setdefault(prop, []).append((sid, prop))
  lanes = {}
  for prop, l in seeds.items():
    lanes.setdefault("C16-18" if prop in ("C16", "C17", "C18") else prop, []).extend(l)
  os.makedirs(TMP, exist_ok=True)
  res = []
  with cf.ThreadPoolExecutor(max_workers=6) as ex:
    for r in ex.map(lambda kv: lane(*kv), sorted(lanes.items())):
      res += r
  sh(f"git -C {VERIF} checkout -- evidence/")
  head = sh("git -C /repo rev-parse --short HEAD").stdout.strip()
  vh = sh(f"git -C {VERIF} rev-parse --short HEAD").stdout.strip()
  lines = [f"# Seed regression against /repo {head}, /verif {vh}", "",
           "Every kept seed re-applied to a clone of the current /repo HEAD and judged by the current quick check of its property.", "",
           "| seed | property | result | VIOLATION lines | with a concrete input |", "|---|---|---|---|---|"]
  for sid, prop, status, nv, nc in sorted(res):
    lines.append(f"| {sid} | {prop} | {status} | {nv} | {nc} |")
  missed = [r for r in res if not r[2].startswith("caught")]
  lines += ["", f"{len(res)} seeds, {len(res) - len(missed)} caught, {len(missed)} not: {[r[0] for r in missed]}"]
  seed = os.environ.get("VERIF_SEED", "0")
  name = "REGRESSION.md" if not only else "REGRESSION_partial.md"
  if seed != "0":
    name = name.replace(".md", f"_seed{seed}.md")
  lines[0] += f", VERIF_SEED={seed}"
  open(os.path.join(VERIF, "seeded", name), "w").write("\n".join(lines) + "\n")
  print("\n".join(lines[-3:]))
  shutil.rmtree(TMP, ignore_errors=True)
  return 0


if __name__ == "__main__":
  sys.exit(main())

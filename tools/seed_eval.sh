#!/bin/sh
# usage: tools/seed_eval.sh <seed-dir> <property> [extra properties...]
# Applies <seed-dir>/patch.diff to /repo, runs the seed's demo (must FAIL), the baseline
# suite (the 90 stable tests must still pass) and the quick checks of the given
# properties, then restores /repo and runs the demo again (must PASS).
set -u
SD="$1"; shift
cd /verif
git -C /repo diff --quiet || { echo "/repo has local changes; refusing"; exit 2; }
git -C /repo apply "$SD/patch.diff" || { echo "patch does not apply"; exit 2; }
trap 'git -C /repo checkout -- . ' EXIT
echo "== demo with patch (expect FAIL / exit 1)"
QKERAS_REPO=/repo QK_REPO=/repo TF_CPP_MIN_LOG_LEVEL=3 /venv/bin/python "$SD/demo.py" > "$SD/demo_patched.out" 2>&1; echo "demo exit: $?"; tail -2 "$SD/demo_patched.out" | cut -c1-300
if [ "${SKIP_SUITE:-0}" != "1" ]; then
echo "== baseline suite with patch"
(cd /repo && timeout 2400 /venv/bin/python -m pytest -q -p no:cacheprovider --timeout=900 --continue-on-collection-errors --junitxml=/tmp/seed_suite.xml > /tmp/seed_suite.log 2>&1; tail -1 /tmp/seed_suite.log)
python3 - <<'EOF'
import json,xml.etree.ElementTree as ET
base=set(json.load(open('/root/.vp/BASELINE.json'))['stable_pass'])
t=ET.parse('/tmp/seed_suite.xml'); passed=set()
for tc in t.iter('testcase'):
    if not any(c.tag in('failure','error','skipped') for c in tc):
        passed.add(tc.get('classname')+'::'+tc.get('name'))
print('stable tests now failing:', sorted(base-passed))
EOF
fi
for P in "$@"; do
  echo "== check $P with patch"
  ./check "$P" > "$SD/check_$P.out" 2>&1; echo "check exit: $?"
  grep "VIOLATION\|Traceback" "$SD/check_$P.out" | cut -c1-220 | head -8
done
git -C /repo checkout -- .
trap - EXIT
# evidence written while the patch was applied does not describe the unchanged tree: restore the committed files
git -C /verif checkout -- evidence/ 2>/dev/null
echo "== demo without patch (expect PASS / exit 0)"
QKERAS_REPO=/repo QK_REPO=/repo TF_CPP_MIN_LOG_LEVEL=3 /venv/bin/python "$SD/demo.py" > "$SD/demo_clean.out" 2>&1; echo "demo exit: $?"; tail -1 "$SD/demo_clean.out" | cut -c1-200
git -C /repo status --short | head -3

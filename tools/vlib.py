"""Shared machinery of the /verif checks: Coq runs, evidence, findings.

Every check is a Python program (run with /venv/bin/python) that
  1. regenerates the translated Gallina (coq/gen/<Cxx>_*.v) from /repo,
  2. compiles gen + link lemmas + Properties/<Cxx>.v with coqc (proof obligations),
  3. runs the implementation and the Coq model on the same cases (coq/cases/),
  4. writes evidence/<Cxx>.json, prints KNOWN-FINDING / VIOLATION lines.
"""
import concurrent.futures as cf
import hashlib
import json
import os
import re
import subprocess
import sys
import time

VERIF = os.path.dirname(os.path.dirname(os.path.abspath(__file__)))
COQ = os.path.join(VERIF, "coq")
CASES = os.path.join(COQ, "cases")
GEN = os.path.join(COQ, "gen")
REPO = os.environ.get("QKERAS_REPO", "/repo")
COQFLAGS = ["-Q", os.path.join(COQ, "theories"), "QV", "-Q", GEN, "QVGen",
            "-Q", CASES, "QVCases"]
SEED = int(os.environ.get("VERIF_SEED", "0") or 0)


def tier():
  t = os.environ.get("VERIF_TIER", "quick")
  for i, a in enumerate(sys.argv):
    if a == "--tier" and i + 1 < len(sys.argv):
      t = sys.argv[i + 1]
  return "thorough" if t == "thorough" else "quick"


class CoqError(Exception):
  pass


def coqc(path, timeout=900):
  """Compile one .v file; returns stdout. Raises CoqError with the message."""
  p = subprocess.run(["timeout", str(timeout), "coqc"] + COQFLAGS + [path],
                     capture_output=True, text=True)
  if p.returncode != 0:
    raise CoqError(f"coqc {path} failed (rc={p.returncode}):\n{p.stdout[-3000:]}\n{p.stderr[-3000:]}")
  return p.stdout


def _ensure_dirs():
  for d in (CASES, GEN, os.path.join(VERIF, "evidence"), os.path.join(VERIF, "replays")):
    os.makedirs(d, exist_ok=True)


_ensure_dirs()

_INT = re.compile(r"-?\d+")


def parse_int_lists(out):
  """Each `Eval vm_compute in (... : list Z)` prints `= [a; b; ...]%Z : list Z`
  possibly wrapped; return one list of ints per `=`-result."""
  res = []
  for chunk in re.split(r"^\s*=\s", out, flags=re.M)[1:]:
    body = chunk.split(": list")[0]
    res.append([int(t) for t in _INT.findall(body.replace("%Z", ""))])
  return res


def coq_eval(name, text, timeout=900):
  """Write coq/cases/<name>.v, compile, return the parsed integer lists."""
  path = os.path.join(CASES, name + ".v")
  with open(path, "w") as f:
    f.write(text)
  try:
    out = coqc(path, timeout)
  finally:
    for ext in (".vo", ".vok", ".vos", ".glob", ".v"):
      if ext == ".v" and os.environ.get("VERIF_KEEP_CASES"):
        continue
      try:
        os.remove(os.path.join(CASES, name + ext))
      except OSError:
        pass
    try:
      os.remove(os.path.join(CASES, "." + name + ".aux"))
    except OSError:
      pass
  return parse_int_lists(out)


def coq_eval_many(named_texts, workers=16, timeout=900):
  """Run many case files in parallel; returns {name: int lists}."""
  res = {}
  with cf.ThreadPoolExecutor(max_workers=workers) as ex:
    futs = {ex.submit(coq_eval, n, t, timeout): n for n, t in named_texts}
    for fu in cf.as_completed(futs):
      res[futs[fu]] = fu.result()
  return res


def stratified(items, key, n, rng, per=1):
  """Quick-tier sub-sampling that cannot skip a family: at least `per` items of every stratum key(item),
  the rest drawn uniformly; order preserved.  (Uniform sub-sampling missed two seeded changes: DESIGN 10.6.)"""
  strata = {}
  for i, it in enumerate(items):
    strata.setdefault(key(it), []).append(i)
  chosen = set()
  for k in sorted(strata, key=str):
    idx = strata[k]
    for j in rng.choice(len(idx), size=min(per, len(idx)), replace=False):
      chosen.add(idx[int(j)])
  rest = [i for i in range(len(items)) if i not in chosen]
  extra = max(0, n - len(chosen))
  if extra and rest:
    for j in rng.choice(len(rest), size=min(extra, len(rest)), replace=False):
      chosen.add(rest[int(j)])
  return [items[i] for i in sorted(chosen)]


def zlit(v):
  v = int(v)
  return f"({v})" if v < 0 else str(v)


def zlist(vs):
  return "[" + "; ".join(zlit(v) for v in vs) + "]"


def blit(b):
  return "true" if b else "false"


def ratlit(fr):
  """fractions.Fraction -> Coq (num, den) literal"""
  return f"({zlit(fr.numerator)}, {fr.denominator})"


# ---------------------------------------------------------------------------
# proof obligations: gen files, link lemmas, Properties/<Cxx>.v

FORBIDDEN = re.compile(
    r"\b(Admitted|admit|Axiom|Axioms|Parameter|Parameters|Conjecture|Conjectures|"
    r"Admit Obligations|bypass_check|native_compute)\b|Unset\s+Guard|"
    r"Unset\s+Positivity|Unset\s+Universe|type-in-type|impredicative-set")


def scan_forbidden(paths):
  hits = []
  for p in paths:
    try:
      src = open(p).read()
    except OSError:
      continue
    src_nc = re.sub(r"\(\*.*?\*\)", "", src, flags=re.S)
    for m in FORBIDDEN.finditer(src_nc):
      hits.append(f"{p}: {m.group(0)}")
    # Variable/Hypothesis outside a section
    depth = 0
    for line in src_nc.splitlines():
      s = line.strip()
      if re.match(r"Section\b", s):
        depth += 1
      elif re.match(r"End\b", s) and depth > 0:
        depth -= 1
      elif depth == 0 and re.match(r"(Variable|Variables|Hypothesis|Hypotheses|Context)\b", s):
        hits.append(f"{p}: {s[:60]} outside a section")
  return hits


def all_v_files():
  out = []
  for root in (os.path.join(COQ, "theories"), GEN):
    for d, _, fs in os.walk(root):
      for f in fs:
        if f.endswith(".v"):
          out.append(os.path.join(d, f))
  return sorted(out)


def parse_assumptions(out):
  """Parse the output of the `Print Assumptions` commands of a Properties file.
  Returns list of dicts {closed: bool, axioms: [...]} in order."""
  res = []
  blocks = re.split(r"(?m)^(?=Closed under the global context|Axioms:)", out)
  for b in blocks:
    if b.startswith("Closed under the global context"):
      res.append({"closed": True, "axioms": []})
    elif b.startswith("Axioms:"):
      axs = re.findall(r"(?m)^([A-Za-z_][\w.']*)\s*:", b[len("Axioms:"):])
      res.append({"closed": False, "axioms": axs})
  return res


STDLIB_AXIOM_PREFIXES = (
    "ClassicalDedekindReals.", "FunctionalExtensionality.", "Classical_Prop.",
    "Eqdep.", "JMeq.", "ProofIrrelevance.", "ClassicalEpsilon.", "Rdefinitions.",
    "Raxioms.", "ClassicalFacts.", "PropExtensionality.", "Coq.", "sig_forall_dec",
    "sig_not_dec", "functional_extensionality_dep", "classic", "PrimFloat", "Uint63",
    "PrimInt63", "FloatOps", "FloatAxioms")


def build_obligations(prop, gen_files=(), extra_files=()):
  """Compile gen files (in order), extra (link) files and Properties/<prop>.v.
  Returns dict(obligations, discharged, theorems, assumptions, errors)."""
  info = {"obligations": 0, "discharged": 0, "theorems": [], "axioms": [], "errors": [],
          "files": []}
  files = list(gen_files) + list(extra_files) + [
      os.path.join(COQ, "theories", "Properties", prop + ".v")]
  outs = {}
  # checks of different properties share generated / link files (C16, C17, C18): serialise this phase across processes
  import fcntl
  lock = open(os.path.join(COQ, ".obligations.lock"), "w")
  fcntl.flock(lock, fcntl.LOCK_EX)
  try:
    return _build_obligations_locked(prop, files, info, outs)
  finally:
    fcntl.flock(lock, fcntl.LOCK_UN)
    lock.close()


def _build_obligations_locked(prop, files, info, outs):
  for f in files:
    info["files"].append(os.path.relpath(f, VERIF))
    try:
      outs[f] = coqc(f)
    except CoqError as e:
      info["errors"].append({"file": os.path.relpath(f, VERIF), "error": str(e)[-1500:]})
      # what this file was meant to discharge stays undischarged
      try:
        src = open(f).read()
        n = len(re.findall(r"(?m)^\s*(Theorem|Lemma|Example|Corollary)\b", src))
      except OSError:
        n = 1
      info["obligations"] += max(n, 1)
      break
    src = open(f).read()
    names = re.findall(r"(?m)^\s*(?:Theorem|Lemma|Example|Corollary)\s+([\w']+)", src)
    info["obligations"] += len(names)
    info["discharged"] += len(names)
    info["theorems"] += names
    for a in parse_assumptions(outs[f]):
      for ax in a["axioms"]:
        if ax not in info["axioms"]:
          info["axioms"].append(ax)
  bad = scan_forbidden(all_v_files())
  if bad:
    info["errors"].append({"file": "(scan)", "error": "forbidden constructs: " + "; ".join(bad[:10])})
  nonstd = [a for a in info["axioms"] if not a.startswith(STDLIB_AXIOM_PREFIXES)]
  if nonstd:
    info["errors"].append({"file": "(assumptions)", "error": "non-stdlib axioms: " + ", ".join(nonstd)})
  return info


# ---------------------------------------------------------------------------
# findings / violations / evidence

def load_known_findings(prop):
  path = os.path.join(VERIF, "known_findings.jsonl")
  res = []
  if os.path.exists(path):
    for line in open(path):
      line = line.strip()
      if not line or line.startswith("#") or line.startswith("fixed:"):
        continue
      r = json.loads(line)
      if r.get("property") == prop:
        res.append(r)
  return res


class Report:
  """Collects what one check run did; writes the evidence file; prints lines."""

  def __init__(self, prop, level="proof"):
    self.prop = prop
    self.level = level
    self.t0 = time.time()
    self.tier = tier()
    self.known = load_known_findings(prop)
    self.known_hit = {}
    self.violations = []
    self.cov = {"evaluations": 0, "distinct_nontrivial": 0, "rule": "", "samples": []}
    self.assumptions = []
    self._distinct = set()
    # stale replays of earlier runs of this property are removed; this run rewrites its own
    rdir = os.path.join(VERIF, "replays")
    if "--replay" not in sys.argv:
      for f in os.listdir(rdir):
        if f.startswith(prop + "_"):
          try:
            os.remove(os.path.join(rdir, f))
          except OSError:
            pass

  # --- coverage bookkeeping
  def count(self, key, nontrivial=True):
    """key: hashable description of one explored case."""
    self.cov["evaluations"] += 1
    if nontrivial:
      self._distinct.add(hashlib.md5(repr(key).encode()).hexdigest())

  def sample(self, obj, cap=8):
    if len(self.cov["samples"]) < cap:
      self.cov["samples"].append(obj)

  def note(self, **kw):
    self.cov.update(kw)

  # --- findings
  def finding(self, fid, what, detail=None):
    """An observed deviation. If `fid` is listed in known_findings.jsonl it is
    reported as KNOWN-FINDING (once); otherwise it is a violation."""
    for k in self.known:
      if k["id"] == fid:
        if fid not in self.known_hit:
          self.known_hit[fid] = k
          print(f"KNOWN-FINDING: property={self.prop} {k['what_fails']}")
        return True
    self.violation(fid, what, detail)
    return False

  def violation(self, vid, what, detail=None, no_input=False):
    path = os.path.join(VERIF, "replays", f"{self.prop}_{re.sub(r'[^A-Za-z0-9_.-]', '_', str(vid))[:80]}.json")
    if any(v["replay"] == path for v in self.violations):
      return
    rec = {"property": self.prop, "id": vid, "what": what, "detail": detail,
           "seed": SEED, "tier": self.tier,
           "replay_cmd": f"./check {self.prop} --replay {path}"}
    with open(path, "w") as f:
      json.dump(rec, f, indent=1, default=str)
    self.violations.append({"replay": path, "no_input": no_input, "what": what})

  def obligations(self, info, checker_cmd):
    self.cov["obligations"] = self.cov.get("obligations", 0) + info["obligations"]
    self.cov["discharged"] = self.cov.get("discharged", 0) + info["discharged"]
    self.cov["checker_cmd"] = checker_cmd
    self.cov.setdefault("theorems", [])
    self.cov["theorems"] += info["theorems"]
    self.cov.setdefault("axioms_reported_by_Print_Assumptions", [])
    self.cov["axioms_reported_by_Print_Assumptions"] += info["axioms"]
    self.cov.setdefault("coq_files", [])
    self.cov["coq_files"] += info["files"]
    return info["errors"]

  def finish(self, trusted_base=()):
    self.cov["distinct_nontrivial"] = len(self._distinct)
    self.cov.setdefault("trusted_base", list(trusted_base))
    self.cov["known_findings_reobserved"] = sorted(self.known_hit)
    ev = {"property_id": self.prop, "tier": self.tier, "seed": SEED, "level": self.level,
          "coverage": self.cov, "assumptions": self.assumptions,
          "wall_s": round(time.time() - self.t0, 2), "violations": len(self.violations)}
    with open(os.path.join(VERIF, "evidence", self.prop + ".json"), "w") as f:
      json.dump(ev, f, indent=1, default=str)
    for v in self.violations:
      tail = " no-failing-input-found" if v["no_input"] else ""
      print(f"VIOLATION property={self.prop} replay={v['replay']}{tail}")
    sys.stdout.flush()
    return 1 if self.violations else 0


TRUSTED_COMMON = [
    "Coq 8.16.1 kernel and its bytecode VM (vm_compute); native_compute is not used",
    "no Axiom/Parameter/Admitted in /verif/coq (scanned on every run)",
    "the correspondence harness under /verif/tools (generators, float<->bit conversion, parsers)",
]

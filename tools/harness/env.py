"""Harness environment: deterministic TF settings, /repo on sys.path, and the
substrate stubs of DESIGN.md section 2.1.  Nothing here touches /repo.

Import this module *before* tensorflow / qkeras.
"""
import os
import sys
import types

os.environ.setdefault("TF_CPP_MIN_LOG_LEVEL", "3")
os.environ.setdefault("TF_ENABLE_ONEDNN_OPTS", "0")
os.environ.setdefault("PYTHONHASHSEED", "0")
os.environ.setdefault("CUDA_VISIBLE_DEVICES", "")
os.environ["QKERAS_VERIF"] = "1"

REPO = os.environ.get("QKERAS_REPO", "/repo")
if REPO in sys.path:
  sys.path.remove(REPO)
sys.path.insert(0, REPO)
for k in [k for k in sys.modules if k == "qkeras" or k.startswith("qkeras.")]:
  del sys.modules[k]

import numpy as np  # noqa: E402
import tensorflow as tf  # noqa: E402
import tensorflow.keras.backend as K  # noqa: E402

STUBS = []

# --- learning phase (absent in Keras 3) -------------------------------------
_phase = [0]
HAS_NATIVE_LEARNING_PHASE = hasattr(K, "learning_phase")


def install_learning_phase():
  if "learning_phase" in STUBS:
    return
  K.learning_phase = lambda: bool(_phase[0])
  K.set_learning_phase = lambda v: _phase.__setitem__(0, int(v))
  STUBS.append("learning_phase")


def set_phase(v):
  _phase[0] = int(v)


# --- injected randomness ------------------------------------------------------
_U = [None]
_orig_uniform = tf.random.uniform


def _fake_uniform(shape, minval=0, maxval=None, dtype=tf.float32, seed=None, name=None):
  if _U[0] is None:
    return _orig_uniform(shape, minval=minval, maxval=maxval, dtype=dtype, seed=seed, name=name)
  u = tf.reshape(tf.constant(_U[0], dtype=tf.float32), shape)
  if maxval is None:
    return u
  return minval + (maxval - minval) * u


def install_uniform():
  """Replace tf.random.uniform in every module object qkeras reaches it through
  (tensorflow and tensorflow.compat.v2 expose distinct `random` modules)."""
  if "uniform" in STUBS:
    return
  import tensorflow.compat.v2 as tfv2
  tf.random.uniform = _fake_uniform
  tfv2.random.uniform = _fake_uniform
  STUBS.append("uniform")


def set_uniform(u):
  """u: array of draws in [0,1) (same number of elements as the tensor) or None."""
  _U[0] = None if u is None else np.asarray(u, dtype=np.float32)


# --- keras_tuner stand-in -----------------------------------------------------
def install_keras_tuner():
  if "keras_tuner" in STUBS:
    return
  kt = types.ModuleType("keras_tuner")

  class _HM:
    def __init__(self, *a, **k):
      pass
  for n in ["HyperModel", "BayesianOptimization", "Hyperband", "RandomSearch", "Tuner", "Oracle"]:
    setattr(kt, n, type(n, (_HM,), {}))
  kt.engine = types.ModuleType("keras_tuner.engine")
  sys.modules["keras_tuner"] = kt
  sys.modules["keras_tuner.engine"] = kt.engine
  STUBS.append("keras_tuner")


# --- float helpers --------------------------------------------------------------
def f2b(a):
  """float32 array -> uint32 bit patterns (as python ints list)"""
  return np.asarray(a, dtype=np.float32).reshape(-1).view(np.uint32).astype(np.int64).tolist()


def b2f(bits):
  return np.asarray(bits, dtype=np.uint32).view(np.float32)


def d2b(a):
  return np.asarray(a, dtype=np.float64).reshape(-1).view(np.uint64).astype(object).tolist()


def calibrate_ftz():
  """Does this TF build flush denormals? (recorded in the evidence)"""
  x = tf.constant([1e-40, -1e-40, 2.0 ** -126, 2.0 ** -127], dtype=tf.float32)
  y = (x * tf.constant([2.0, 2.0, 0.5, 2.0], dtype=tf.float32)).numpy()
  return bool(np.all(y == 0.0))


def nextafter32(x, up=True):
  x = np.float32(x)
  return np.nextafter(x, np.float32(np.inf if up else -np.inf), dtype=np.float32)


class _TensorRef:
  """hashable stand-in for Keras-2 `tensor.ref()`"""

  def __init__(self, t):
    self.t = t

  def __hash__(self):
    return id(self.t)

  def __eq__(self, o):
    return isinstance(o, _TensorRef) and o.t is self.t

  def deref(self):
    return self.t


class _ShapeList:
  def __init__(self, s):
    self.s = s

  def as_list(self):
    return list(self.s)


def install_keras2_graph_shims():
  """qtools' graph builder (qgraph.GenerateGraphFromModel) reads four Keras-2 attributes that Keras 3
  dropped: KerasTensor.ref(), KerasTensor.get_shape(), Layer.output_shape / input_shape and
  Layer.get_output_at / get_input_at.  They are pure accessors; with them QTools(model), analyze_accumulator
  (through unfold_model) and find_bn_fusing_layer_pair run unmodified on functional models."""
  import keras
  from keras.src.backend.common.keras_tensor import KerasTensor
  if not hasattr(KerasTensor, "ref"):
    KerasTensor.ref = lambda self: _TensorRef(self)
  if not hasattr(KerasTensor, "get_shape"):
    KerasTensor.get_shape = lambda self: _ShapeList(self.shape)
  L = keras.layers.Layer
  if not hasattr(L, "output_shape"):
    L.output_shape = property(lambda self: [tuple(self.output.shape)] if type(self).__name__ == "InputLayer" else tuple(self.output.shape))
  if not hasattr(L, "input_shape"):
    L.input_shape = property(lambda self: [tuple(t.shape) for t in self.input] if isinstance(self.input, (list, tuple)) else tuple(self.input.shape))
  if not hasattr(L, "get_output_at"):
    L.get_output_at = lambda self, i: self.output
  if not hasattr(L, "get_input_at"):
    L.get_input_at = lambda self, i: self.input


def install_keras2_batchnorm_standin():
  """The folded layers (QConv2DBatchnorm, QDepthwiseConv2DBatchnorm) construct a Keras-2 BatchNormalization
  (`fused=`, `virtual_batch_size=` ...) and read its private `_get_training_value`, `_moments`, `_param_dtype` and list-valued
  `axis`; Keras 3 rejects the constructor arguments, so the classes do not build in the pinned environment (known
  finding).  This installs, in the `layers` namespace of the two qkeras modules only, a stand-in that does the batch-norm
  BOOKKEEPING of the Keras-2 class (four weights, epsilon, inference call); every line of folding arithmetic, get_folded_weights,
  unfold_model and convert_folded_layer_to_unfolded that then runs is /repo's.  Also gives Keras variables the Keras-2
  accessor get_shape() that QDepthwiseConv2DBatchnorm.call reads.  (Technique first seen in the demo of seed C15-d.)"""
  import types
  import keras
  from keras.src.backend.common.variables import Variable as _KV
  from qkeras import qconv2d_batchnorm as qcb, qdepthwiseconv2d_batchnorm as qdb
  if not hasattr(_KV, "get_shape"):
    _KV.get_shape = lambda self: tf.TensorShape(self.shape)

  class BatchNormalizationK2(keras.layers.Layer):
    def __init__(self, axis=-1, momentum=0.99, epsilon=1e-3, center=True, scale=True, trainable=True, **unused):
      super().__init__(trainable=trainable)
      self._axis_arg, self.momentum, self.epsilon, self.center, self.scale = axis, momentum, epsilon, center, scale
      self.gamma = self.beta = self.moving_mean = self.moving_variance = None
      self._param_dtype = tf.float32

    def build(self, input_shape):
      nd = len(input_shape)
      ax = self._axis_arg if self._axis_arg >= 0 else nd + self._axis_arg
      self.axis = [ax]
      shape = (input_shape[ax],)
      if self.scale:
        self.gamma = self.add_weight(name="gamma", shape=shape, initializer="ones")
      if self.center:
        self.beta = self.add_weight(name="beta", shape=shape, initializer="zeros")
      self.moving_mean = self.add_weight(name="moving_mean", shape=shape, initializer="zeros", trainable=False)
      self.moving_variance = self.add_weight(name="moving_variance", shape=shape, initializer="ones", trainable=False)

    def _get_training_value(self, training=None):
      return bool(training) if training is not None else False

    def _moments(self, x, axes, keep_dims):
      return tf.nn.moments(x, axes, keepdims=keep_dims)

    def call(self, x, training=None):
      return tf.nn.batch_normalization(x, self.moving_mean, self.moving_variance, self.beta, self.gamma, self.epsilon)

    def get_config(self):
      return {"axis": self._axis_arg, "momentum": self.momentum, "epsilon": self.epsilon, "center": self.center, "scale": self.scale}

  for mod in (qcb, qdb):
    if getattr(mod.layers, "_verif_standin", False):
      continue
    ns = types.SimpleNamespace(**{k: getattr(mod.layers, k) for k in dir(mod.layers) if not k.startswith("__")})
    ns.BatchNormalization = BatchNormalizationK2
    ns._verif_standin = True
    mod.layers = ns
  return BatchNormalizationK2
